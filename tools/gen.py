"""Generators: grammar-directed MongoDB log lines with role-annotated literals, table sweep,
arbitrary trees over the operator vocabulary, and malformed byte lines.  All randomness from a SplitMix."""
import json, os
from vlib import *


def load_tables():
    return json.load(open(os.path.join(BUILD, "tables.json")))


def table_paths(m, prefix=()):
    """every root-to-leaf path of a dumped table: (path, leaf) with leaf an int type, None, or 'emptymap'"""
    out = []
    for k, v in m["map"]:
        p = prefix + (k,)
        if isinstance(v, dict):
            if not v["map"]:
                out.append((p, "emptymap"))
            else:
                out.append((p, "map"))
                out.extend(table_paths(v, p))
        else:
            out.append((p, v))
    return out


CMP_OPS = ["$eq", "$gt", "$gte", "$lt", "$lte", "$ne"]
ARR_OPS = ["$in", "$nin", "$all"]
EXPR_OPS = ["$concat", "$add", "$eq", "$gt", "$and", "$or", "$ifNull", "$toUpper", "$substr", "$sum", "$multiply",
            "$dateToString", "$in", "$arrayElemAt", "$cmp", "$strLenCP", "$toString", "$mergeObjects"]
UPD_OPS = ["$set", "$unset", "$inc", "$push", "$pull", "$addToSet", "$setOnInsert", "$min", "$max", "$mul", "$rename",
           "$currentDate", "$pullAll", "$pop", "$bit"]
SEARCH_TEXT_OPS = ["text", "phrase", "autocomplete", "regex", "wildcard"]


def remote_value(r):
    """client addresses as mongod writes them: IPv4, bracketed IPv6 (global, loopback, link-local WITH a zone, IPv4-mapped),
    unix-socket paths, host names, and odd texts"""
    k = r.below(12)
    port = 1024 + r.below(60000)
    if k < 4:
        return "10.%d.%d.%d:%d" % (r.below(256), r.below(256), r.below(256), port)
    return ["[2001:db8::%x]:%d" % (r.below(65536), port), "[::1]:%d" % port, "[fe80::%x%%eth0]:%d" % (r.below(65536), port), "[fe80::1%%25en0]:%d" % port,
            "[::ffff:10.0.%d.%d]:%d" % (r.below(256), r.below(256), port), "/tmp/mongodb-27017.sock", "anonymous unix socket", "db-host-%d.internal:%d" % (r.below(99), port),
            "192.168.%d.%d" % (r.below(256), r.below(256)), "zqremote %d \"odd\" text" % r.below(999), "", "300.400.500.600:99999"][k - 4 if k - 4 < 12 else 0]


class G:
    """Grammar generator. Every literal it plants is recorded with its role:
       S string literal, E e-mail shaped literal, N number literal, B boolean literal,
       D date (under $date), O oid (under $oid), X base64 payload (under $binary.base64),
       F user field name (a key or a "$field" reference), K kept operational parameter, NS namespace component."""

    def __init__(self, rng, exotic=False):
        self.r = rng
        self.n = 0
        self.roles = {}     # token -> role
        self.exotic = exotic
        self.fields = []

    # ---------------------------------------------------------------- tokens
    def tok(self, role):
        self.n += 1
        t = "zq%dx%s" % (self.n, role.lower())
        self.roles[t] = role
        return t

    def sstr(self):
        t = self.tok("S")
        r = self.r
        if not self.exotic or r.chance(1, 2):
            return t
        k = r.below(8)
        if k == 0:
            return "pré " + t + " 中\U0001F600"
        if k == 1:
            return t + ' "q" \\ / \b\f\n\r\t <&>  '
        if k == 2:
            return "a$" + t + "$b"
        if k == 3:
            return t + " " * 3 + t
        if k == 4:
            return t + "x" * r.choice([50, 300, 2000])
        if k == 5:
            return "{\"" + t + "\":[1,2]}"
        if k == 6:
            return t + r.choice(["\x00\x01\x1f\x7f", "\x1f", "a\x1fb", "\x1e", "\x7f"])
        if r.chance(1, 3):
            # text that was escaped once already: a literal backslash followed by uXXXX / an escape letter
            return t + r.choice(["\\u003c", "\\u003e b \\u0026", "\\u0041\\n", "\\\\u003c", "<\\u003c>", "\\"])
        return "  " + t + "\t"

    def email(self):
        t = self.tok("E")
        if self.exotic and self.r.chance(1, 6):
            # local parts of 63 / 64 / 65 characters (the regular expression has no length limit)
            t = t + "." + "l" * (self.r.choice([63, 64, 65]) - len(t) - 1)
        return t + self.r.choice(["@ex-ample.org", "@ex-ample.org", "@Ex-Ample.ORG", ".Mixed.Case@EXAMPLE.com"])

    def num(self):
        self.n += 1
        r = self.r
        core = "91%05d37" % self.n
        self.roles[core] = "N"
        k = r.below(10) if self.exotic else 0
        if k == 0:
            return Num(core)
        if k == 1:
            return Num("-" + core)
        if k == 2:
            return Num(core + ".5")
        if k == 3:
            return Num(core + "e3")
        if k == 4:
            return Num(core + "000000000000000001")
        # valid JSON numbers that no machine number type holds: beyond float64 (json.Number keeps their text)
        if k == 6:
            return Num(core + "e400")
        if k == 7:
            return Num("-" + core[0] + "." + core[1:] + "E+999")
        if k == 8:
            return Num(core * 40)
        if k == 9:
            return Num("0." + "0" * 330 + core + "e-400")
        return Num("0." + core)

    def boolean(self):
        return self.r.chance(1, 2)

    def field(self, new=None):
        r = self.r
        if self.fields and (new is False or (new is None and r.chance(1, 2))):
            return r.choice(self.fields)
        t = self.tok("F")
        if r.chance(1, 6):
            t = t + "." + self.tok("F")
        if self.exotic and r.chance(1, 14):
            # a user field spelled like a command key / a namespace-bearing key
            t = r.choice(["collection", "count", "ns", "update", "find", "delete", "aggregate", "coll", "from", "into", "db"])
            self.fields.append(t)
            return t
        if self.exotic and r.chance(1, 12):
            # names that contain an IPv4 address, look like a command key, or like an operator argument
            t = t + r.choice([".192.168.1.10", "_10.0.0.7:27017", "10.1.2.3"])
        if self.exotic and r.chance(1, 5):
            # keys that need escaping when printed: control characters, quote, backslash, HTML, non-ASCII, U+2028
            t = t + r.choice(["\n", "\t", "\u0001", "\"", "\\", "\\u0041", "<&>", "é", "\u2028", "\U0001F600", " ", "\r", "\u007f", "/", "\x1f", "\x1e", "\\u003c", "\\u0026x",
                              # '%' in a key: text that reaches the output unredacted may not be read as a format
                              "%", " %d", "%s", "100%", "%!(x)", "%%", "%v%v"])
        self.fields.append(t)
        return t

    def ref(self):
        return "$" + self.field()

    def date(self):
        t = "20%02d-0%d-1%dT0%d:00:00.%03dZ" % (self.r.below(30), 1 + self.r.below(9), self.r.below(10), self.r.below(10), self.r.below(1000))
        self.n += 1
        self.roles[t] = "D"
        return t

    def oid(self):
        self.n += 1
        t = "5f%022x" % (self.n * 7919 + self.r.below(1 << 40))
        self.roles[t] = "O"
        return t

    def b64(self):
        import base64
        self.n += 1
        raw = ("blob%06d" % self.n).encode() + bytes([self.r.below(256) for _ in range(self.r.below(9))])
        t = base64.b64encode(raw).decode()
        self.roles[t] = "X"
        return t

    # ---------------------------------------------------------------- literals
    def scalar_lit(self):
        r = self.r
        k = r.below(20)
        if k < 9:
            return self.sstr()
        if k < 11:
            return self.email()
        if k < 15:
            return self.num()
        if k < 17:
            return self.boolean()
        if k == 17:
            return None
        if k == 18:
            return Obj([("$date", self.date())])
        return Obj([("$oid", self.oid())])

    def lit(self, depth=0):
        r = self.r
        k = r.below(24)
        if depth < 2:
            if k == 0:
                return [self.lit(depth + 1) for _ in range(r.below(4))]
            if k == 1:
                return Obj([(self.field(), self.lit(depth + 1)) for _ in range(1 + r.below(3))])
            if k == 2:
                return Obj([("$binary", Obj([("base64", self.b64()), ("subType", r.choice(["00", "04", "80"]))]))])
            if k == 3:
                return [[self.scalar_lit()], [Obj([(self.field(), self.scalar_lit())])], []]
            if k == 4:
                return Obj([("$numberLong", str(self.num()))]) if False else Obj([("$date", Obj([("$numberLong", "1700000000000")]))])
            if k == 5:
                return Obj([("$regularExpression", Obj([("pattern", self.sstr()), ("options", "i")]))])
            if k == 6:
                # the other extended-JSON wrappers; their payloads are client literals (strings)
                self.n += 1
                w = r.below(8)
                if w == 0:
                    u = "%08x-%04x-%d%03x-%s%03x-%012x" % (0x5a000000 + self.n, r.below(1 << 16), 1 + r.below(5), r.below(1 << 12), r.choice("89ab"), r.below(1 << 12), self.n * 104729)
                    self.roles[u] = "S"
                    return Obj([("$uuid", u)])
                if w == 1:
                    t = "91%05d37" % self.n
                    self.roles[t] = "S"
                    return Obj([(r.choice(["$numberLong", "$numberInt"]), t)])
                if w == 2:
                    t = "91%05d37.25" % self.n
                    self.roles[t] = "S"
                    return Obj([(r.choice(["$numberDecimal", "$numberDouble"]), t)])
                if w == 3:
                    return Obj([(r.choice(["$symbol", "$code"]), self.sstr())])
                if w == 4:
                    return Obj([("$timestamp", Obj([("t", self.num()), ("i", self.num())]))])
                if w == 5:
                    return Obj([(r.choice(["$minKey", "$maxKey"]), Num("1"))])
                if w == 6:
                    return Obj([("$dbPointer", Obj([("$ref", self.sstr()), ("$id", Obj([("$oid", self.oid())]))]))])
                return Obj([("$uuid", self.sstr())])
        return self.scalar_lit()

    # ---------------------------------------------------------------- query language
    def cond(self, depth=0):
        r = self.r
        k = r.below(14)
        if k < 4 or depth > 2:
            return self.lit(depth)
        if k < 7:
            return Obj([(r.choice(CMP_OPS), self.lit(depth + 1))] + ([(r.choice(CMP_OPS), self.scalar_lit())] if r.chance(1, 3) else []))
        if k < 9:
            if self.exotic and depth == 0 and r.chance(1, 12):
                # a WIDE list (an `$in` over a thousand ids is ordinary): every element is a literal of its own
                n = r.choice([999, 1000, 1001, 1024, 1500])
                mixed = r.chance(1, 3)
                return Obj([(r.choice(ARR_OPS), [self.tok("S") if (j % 7 or not mixed) else Num(str(1000 + j)) for j in range(n)])])
            return Obj([(r.choice(ARR_OPS), [self.lit(depth + 1) for _ in range(1 + r.below(3))])])
        if k == 9:
            return Obj([("$elemMatch", self.filter(depth + 1))])
        if k == 10:
            return Obj([("$not", Obj([(r.choice(CMP_OPS), self.scalar_lit())]))])
        if k == 11:
            return Obj([("$regex", self.sstr()), ("$options", "i")])
        if k == 12:
            return Obj([("$exists", self.boolean())]) if r.chance(1, 2) else Obj([("$type", "string")])
        return Obj([("$size", self.num())]) if r.chance(1, 2) else Obj([("$mod", [self.num(), self.num()])])

    def filter(self, depth=0):
        r = self.r
        o = Obj()
        for _ in range(1 + r.below(3)):
            k = r.below(12)
            if k < 8 or depth > 2:
                o.set(self.field(), self.cond(depth))
            elif k == 8:
                o.set(r.choice(["$and", "$or", "$nor"]), [self.filter(depth + 1) for _ in range(1 + r.below(3))])
            elif k == 9:
                o.set("$expr", self.expr(depth + 1))
            elif k == 10:
                o.set("$text", Obj([("$search", self.sstr())]))
            else:
                o.set("$where", self.sstr()) if r.chance(1, 2) else o.set("$comment", self.sstr())
        return o

    def expr(self, depth=0):
        r = self.r
        k = r.below(10)
        if depth > 3 or k < 2:
            return self.ref() if r.chance(1, 2) else self.scalar_lit()
        if k < 7:
            return Obj([(r.choice(EXPR_OPS), [self.expr(depth + 1) for _ in range(1 + r.below(3))])])
        if k == 7:
            return Obj([("$cond", Obj([("if", self.expr(depth + 1)), ("then", self.expr(depth + 1)), ("else", self.expr(depth + 1))]))])
        if k == 8:
            if r.chance(1, 3):
                # an extended-JSON binary as the operand of $literal: the class of `base64` and the kept `subType` hang on the
                # PARENT key `$binary`, whatever encloses it
                return Obj([("$literal", Obj([("$binary", Obj([("base64", self.b64()), ("subType", r.choice(["00", "04", "80"]))]))]))])
            return Obj([("$literal", self.scalar_lit())])
        return Obj([(r.choice(["$toUpper", "$abs", "$not"]), self.expr(depth + 1))])

    def expr_obj(self, depth=0):
        """an operator expression (never a bare literal)"""
        return Obj([(self.r.choice(EXPR_OPS), [self.expr(depth + 1) for _ in range(1 + self.r.below(3))])])

    def update_doc(self):
        r = self.r
        if r.chance(1, 6):  # replacement document
            return Obj([(self.field(), self.lit()) for _ in range(1 + r.below(3))])
        o = Obj()
        for _ in range(1 + r.below(3)):
            op = r.choice(UPD_OPS)
            if op in ("$push", "$addToSet") and r.chance(1, 2):
                o.set(op, Obj([(self.field(), Obj([("$each", [self.lit(1) for _ in range(1 + r.below(3))])] + ([("$position", Num("0"))] if r.chance(1, 3) else [])))]))
            elif op == "$pull":
                o.set(op, Obj([(self.field(), self.cond(1))]))
            elif op == "$pullAll":
                o.set(op, Obj([(self.field(), [self.scalar_lit() for _ in range(1 + r.below(3))])]))
            elif op == "$rename":
                o.set(op, Obj([(self.field(), self.sstr())]))
            elif op == "$unset":
                o.set(op, Obj([(self.field(), "")]))
            elif op == "$currentDate":
                o.set(op, Obj([(self.field(), True)]))
            elif op in ("$inc", "$mul", "$pop"):
                o.set(op, Obj([(self.field(), self.num())]))
            elif op == "$bit":
                o.set(op, Obj([(self.field(), Obj([("and", self.num())]))]))
            else:
                o.set(op, Obj([(self.field(), self.lit()) for _ in range(1 + r.below(2))]))
        return o

    def update_spec(self):
        if self.r.chance(1, 4):
            return [Obj([(self.r.choice(["$set", "$addFields"]), Obj([(self.field(), self.expr(1))]))]),
                    Obj([("$unset", self.field())])][: 1 + self.r.below(2)]
        return self.update_doc()

    # ---------------------------------------------------------------- search
    def search_op(self, depth=0):
        r = self.r
        k = r.below(13)
        if k == 12:
            # moreLikeThis takes USER DOCUMENTS: their field names are arbitrary, also ones that look like search options / operators
            def udoc(d=0):
                o = Obj()
                for _ in range(1 + r.below(3)):
                    name = r.choice([self.field(), self.field(), "title", "numBuckets", "score", "path", "type", "index", "text", "limit", "query"])
                    o.set(name, udoc(d + 1) if (d < 1 and r.chance(1, 3)) else self.sstr())
                return o
            return Obj([("moreLikeThis", Obj([("like", udoc() if r.chance(1, 2) else [udoc(), udoc()])]))])
        if k < 4:
            op = r.choice(SEARCH_TEXT_OPS)
            pk = r.below(8)
            if pk < 5:
                path = self.field()
            elif pk == 5:
                path = [self.field(), self.field()]
            elif pk == 6:
                # Atlas Search multi-analyzer / wildcard path specifications mixed into a path list
                path = [self.field(), Obj([("value", self.field()), ("multi", "english")]), Obj([("wildcard", "zqwild*")])]
            else:
                path = Obj([("value", self.field()), ("multi", "english")])
            body = Obj([("query", self.sstr() if r.chance(2, 3) else [self.sstr(), self.sstr()]), ("path", path)])
            if r.chance(1, 3):
                body.set("score", Obj([("boost", Obj([("value", Num("3"))]))]))
            if op == "text" and r.chance(1, 3):
                body.set("fuzzy", Obj([("maxEdits", Num("1"))]))
            return Obj([(op, body)])
        if k == 4 and depth < 2:
            o = Obj()
            for cl in ("must", "mustNot", "should", "filter"):
                if r.chance(1, 2):
                    o.set(cl, [self.search_op(depth + 1) for _ in range(1 + r.below(2))])
            if not o:
                o.set("must", [self.search_op(depth + 1)])
            if r.chance(1, 3):
                o.set("minimumShouldMatch", Num("1"))
            return Obj([("compound", o)])
        if k == 5:
            return Obj([("equals", Obj([("path", self.field()), ("value", self.scalar_lit())]))])
        if k == 6:
            return Obj([("range", Obj([("path", self.field()), ("gte", self.scalar_lit()), ("lt", self.scalar_lit())]))])
        if k == 7:
            return Obj([("in", Obj([("path", self.field()), ("value", [self.scalar_lit() for _ in range(1 + r.below(3))])]))])
        if k == 8:
            return Obj([("near", Obj([("path", self.field()), ("origin", self.scalar_lit()), ("pivot", self.num())]))])
        if k == 9:
            return Obj([("exists", Obj([("path", self.field())]))])
        if k == 10 and depth < 2:
            return Obj([("embeddedDocument", Obj([("path", self.field()), ("operator", self.search_op(depth + 1))]))])
        return Obj([("queryString", Obj([("defaultPath", self.field()), ("query", self.sstr())]))])

    def search_stage(self):
        r = self.r
        k = r.below(6)
        if k < 3:
            body = Obj([("index", "idx_default")])
            for kk, vv in self.search_op():
                body.set(kk, vv)
            if r.chance(1, 4):
                body.set("highlight", Obj([("path", self.field())]))
            if r.chance(1, 4):
                body.set("count", Obj([("type", "total")]))
            if r.chance(1, 4):
                body.set("returnStoredSource", True)
            return Obj([("$search", body)])
        if k == 3:
            facets = Obj()
            for _ in range(1 + r.below(2)):
                kind = r.choice(["string", "number", "date"])
                f = Obj([("type", kind), ("path", self.field())])
                if kind == "string":
                    f.set("numBuckets", Num("5"))
                elif kind == "number":
                    f.set("boundaries", [self.num(), self.num()])
                    f.set("default", self.sstr())
                else:
                    f.set("boundaries", [Obj([("$date", self.date())]), Obj([("$date", self.date())])])
                    if r.chance(1, 2):
                        f.set("default", Obj([("$binary", Obj([("base64", self.b64()), ("subType", "04")]))]))
                facets.set(self.field(True), f)
            return Obj([("$searchMeta", Obj([("index", "idx_meta"), ("facet", Obj([("operator", self.search_op(1)), ("facets", facets)]))]))])
        if k == 4:
            return Obj([("$vectorSearch", Obj([("index", "vec_idx"), ("path", self.field()), ("queryVector", [self.num(), self.num(), self.num()]),
                                               ("numCandidates", Num("100")), ("limit", Num("10")), ("filter", self.filter(1))]))])
        pipes = Obj()
        for _ in range(1 + r.below(2)):
            pipes.set("p%d" % r.below(100), [self.search_stage() if r.chance(1, 2) else self.stage(1)])
        return Obj([("$rankFusion", Obj([("input", Obj([("pipelines", pipes)])), ("combination", Obj([("weights", Obj([(k, Num("1")) for k in pipes.keys()]))])), ("scoreDetails", True)]))])

    # ---------------------------------------------------------------- stages
    def stage(self, depth=0):
        r = self.r
        k = r.below(30)
        if k < 5:
            return Obj([("$match", self.filter(1))])
        if k == 5:
            return Obj([("$project", Obj([(self.field(), r.choice([Num("1"), Num("0"), True, self.expr(1), self.ref()])) for _ in range(1 + r.below(3))]))])
        if k == 6:
            return Obj([(r.choice(["$addFields", "$set"]), Obj([(self.field(), self.expr(1)) for _ in range(1 + r.below(2))]))])
        if k == 7:
            return Obj([("$group", Obj([("_id", r.choice([self.ref(), None, Obj([(self.field(), self.ref())])])), (self.field(), Obj([(r.choice(["$sum", "$avg", "$max", "$push", "$first"]), r.choice([self.ref(), Num("1"), self.expr(2)]))]))]))])
        if k == 8:
            return Obj([("$sort", Obj([(self.field(), r.choice([Num("1"), Num("-1")])) for _ in range(1 + r.below(2))]))])
        if k == 9:
            return Obj([(r.choice(["$limit", "$skip"]), Num(str(1 + r.below(500))))])
        if k == 10 and depth < 2:
            o = Obj([("from", self.coll()), ("as", "joined_out")])
            if r.chance(1, 2):
                o.set("localField", self.field())
                o.set("foreignField", self.field())
            if r.chance(2, 3):
                o.set("let", Obj([("v1", self.ref()), ("v2", self.scalar_lit())]))
                o.set("pipeline", [self.stage(depth + 1) for _ in range(1 + r.below(2))])
            return Obj([("$lookup", o)])
        if k == 11:
            if r.chance(1, 2):
                return Obj([("$unwind", self.ref())])
            return Obj([("$unwind", Obj([("path", self.ref()), ("preserveNullAndEmptyArrays", True)]))])
        if k == 12 and depth < 2:
            return Obj([("$facet", Obj([("facet%d" % i, [self.stage(depth + 1) for _ in range(1 + r.below(2))]) for i in range(1 + r.below(2))]))])
        if k == 13 and depth < 2:
            if r.chance(1, 3):
                return Obj([("$unionWith", self.coll())])
            return Obj([("$unionWith", Obj([("coll", self.coll()), ("pipeline", [self.stage(depth + 1)])]))])
        if k == 14:
            o = Obj([("into", self.coll() if r.chance(1, 2) else Obj([("db", self.dbname()), ("coll", self.coll())])), ("on", "_id")])
            o.set("whenMatched", r.choice(["merge", "replace", [Obj([("$set", Obj([(self.field(), self.sstr())]))])]]))
            o.set("whenNotMatched", "insert")
            return Obj([("$merge", o)])
        if k == 15:
            return Obj([("$out", self.coll() if r.chance(1, 2) else Obj([("db", self.dbname()), ("coll", self.coll())]))])
        if k == 16:
            return Obj([("$bucket", Obj([("groupBy", r.choice([self.ref(), self.expr_obj(1)])), ("boundaries", [self.num(), self.num(), self.sstr()]), ("default", self.sstr()),
                                         ("output", Obj([(self.field(), Obj([("$sum", Num("1"))]))]))]))])
        if k == 17:
            return Obj([("$sortByCount", r.choice([self.ref(), self.expr_obj(1)]))])
        if k == 18:
            return Obj([("$replaceRoot", Obj([("newRoot", r.choice([self.ref(), Obj([(self.field(), self.sstr())]), Obj([("$mergeObjects", [Obj([(self.field(), self.sstr())]), "$$ROOT"])])]))]))])
        if k == 19:
            return Obj([("$count", "total_count")])
        if k == 20:
            return Obj([("$sample", Obj([("size", Num(str(1 + r.below(100))))]))])
        if k == 21:
            return Obj([("$geoNear", Obj([("near", Obj([("type", "Point"), ("coordinates", [self.num(), self.num()])])), ("distanceField", "dist_out"), ("query", self.filter(2)), ("maxDistance", self.num()), ("key", self.field())]))])
        if k == 22:
            return Obj([("$graphLookup", Obj([("from", self.coll()), ("startWith", self.ref()), ("connectFromField", self.field()), ("connectToField", self.field()), ("as", "graph_out"),
                                              ("restrictSearchWithMatch", self.filter(2))]))])
        if k == 23:
            return Obj([("$redact", self.expr(1))])
        if k == 24:
            return Obj([("$replaceWith", r.choice([self.ref(), Obj([(self.field(), self.sstr())])]))])
        if k == 25:
            return Obj([("$unset", r.choice([self.field(), [self.field(), self.field()]]))])
        if k == 26:
            return Obj([("$setWindowFields", Obj([("partitionBy", self.ref()), ("sortBy", Obj([(self.field(), Num("1"))])), ("output", Obj([(self.field(), Obj([("$sum", self.ref()), ("window", Obj([("documents", ["unbounded", "current"])]))]))]))]))])
        if k == 27:
            return Obj([("$fill", Obj([("sortBy", Obj([(self.field(), Num("1"))])), ("output", Obj([(self.field(), Obj([("value", self.scalar_lit())]))]))]))])
        if k == 28:
            return Obj([("$documents", [Obj([(self.field(), self.lit(1))]) for _ in range(1 + r.below(2))])])
        return Obj([("$densify", Obj([("field", self.field()), ("range", Obj([("step", Num("1")), ("unit", "hour"), ("bounds", [self.scalar_lit(), self.scalar_lit()])]))]))])

    def pipeline(self):
        r = self.r
        st = []
        if r.chance(1, 4):
            st.append(self.search_stage())
        for _ in range(1 + r.below(4)):
            st.append(self.stage())
        return st

    # ---------------------------------------------------------------- namespaces
    def dbname(self):
        t = self.tok("NS")
        return r_choice_fix(self.r, [t, t, t + "_db", "dé" + t, "REDACTED_" + t, "X_" + t])

    def coll(self):
        t = self.tok("NS")
        return r_choice_fix(self.r, [t, t, t + ".sub", "system." + t, t + "_c", "REDACTED_" + t, "X_" + t + ".sub", "p.q_r_" + t])

    # ---------------------------------------------------------------- commands
    def command(self, depth=0):
        r = self.r
        db, coll = self.dbname(), self.coll()
        self.ns = db + "." + coll
        k = r.below(18) if depth == 0 else r.below(15)
        tail = [("lsid", Obj([("id", Obj([("$uuid", "11111111-2222-3333-4444-555555555555")]))])), ("$db", db)]
        if k == 16:
            # explain: the explained operation, with its query predicate, sits one level down
            verb, inner = self.command(depth + 1)
            inner = Obj([(kk, vv) for kk, vv in inner if kk != "lsid"])
            self.ns = db + "." + coll
            return "explain", Obj([("explain", inner), ("verbosity", r.choice(["queryPlanner", "executionStats", "allPlansExecution"]))] + tail)
        if k == 17:
            # bulkWrite (MongoDB 8.0): one operation per element of ops, namespaces listed in nsInfo
            ops = []
            for _ in range(1 + r.below(3)):
                w = r.below(3)
                if w == 0:
                    ops.append(Obj([("insert", Num("0")), ("document", Obj([("_id", Obj([("$oid", self.oid())]))] + [(self.field(), self.lit()) for _ in range(1 + r.below(2))]))]))
                elif w == 1:
                    u = Obj([("update", Num("0")), ("filter", self.filter()), ("updateMods", self.update_spec()), ("multi", r.chance(1, 2))])
                    if r.chance(1, 3):
                        u.set("arrayFilters", [Obj([("elem." + self.field(), self.cond(1))])])
                    ops.append(u)
                else:
                    ops.append(Obj([("delete", Num("0")), ("filter", self.filter()), ("multi", False)]))
            return "bulkWrite", Obj([("bulkWrite", Num("1")), ("ops", ops), ("nsInfo", [Obj([("ns", db + "." + coll)])]), ("ordered", True)] + [tail[0], ("$db", "admin")])
        if k < 4:
            c = Obj([("find", coll), ("filter", self.filter())])
            if r.chance(1, 2):
                c.set("sort", Obj([(self.field(), Num("1"))]))
            if r.chance(1, 3):
                c.set("projection", Obj([(self.field(), Num("1"))]))
            if r.chance(1, 2):
                c.set("limit", Num(str(1 + r.below(100))))
            return "find", Obj(list(c) + tail)
        if k < 8:
            return "aggregate", Obj([("aggregate", coll), ("pipeline", self.pipeline()), ("cursor", Obj([]))] + tail)
        if k < 10:
            ups = []
            for _ in range(1 + r.below(2)):
                u = Obj([("q", self.filter()), ("u", self.update_spec()), ("multi", self.r.chance(1, 2))])
                if r.chance(1, 3):
                    u.set("arrayFilters", [Obj([("elem." + self.field(), self.cond(1))])])
                ups.append(u)
            return "update", Obj([("update", coll), ("updates", ups), ("ordered", True)] + tail)
        if k == 10:
            return "delete", Obj([("delete", coll), ("deletes", [Obj([("q", self.filter()), ("limit", Num(str(r.below(2))))]) for _ in range(1 + r.below(2))]), ("ordered", True)] + tail)
        if k == 11:
            return "insert", Obj([("insert", coll), ("documents", [Obj([("_id", Obj([("$oid", self.oid())]))] + [(self.field(), self.lit()) for _ in range(1 + r.below(3))]) for _ in range(1 + r.below(2))]), ("ordered", True)] + tail)
        if k == 12:
            c = Obj([("findAndModify", coll), ("query", self.filter()), ("update", self.update_spec()), ("new", True)])
            if r.chance(1, 3):
                c.set("sort", Obj([(self.field(), Num("-1"))]))
            if r.chance(1, 3):
                c.set("arrayFilters", [Obj([("e." + self.field(), self.scalar_lit())])])
            return "findAndModify", Obj(list(c) + tail)
        if k == 13:
            return "count", Obj([("count", coll), ("query", self.filter())] + tail)
        if k == 14:
            return "distinct", Obj([("distinct", coll), ("key", self.field()), ("query", self.filter())] + tail)
        # getMore with originating command
        return "getMore", Obj([("getMore", Num("7121357823561230001")), ("collection", coll), ("batchSize", Num("101"))] + tail)

    def line(self, component=None):
        """A full structured log line (tree). Returns Obj. self.zone_meta says where the zones are."""
        r = self.r
        verb, cmd = self.command()
        comp = component or r.choice(["COMMAND", "COMMAND", "COMMAND", "QUERY", "WRITE"])
        attr = Obj([("type", "command"), ("ns", self.ns), ("appName", "app zqappname"), ])
        if r.chance(1, 3):
            attr.set("remote", remote_value(r))
        if comp == "WRITE" and verb in ("update", "delete"):
            # WRITE lines carry the single statement as attr.command
            st = (cmd.get("updates") or cmd.get("deletes"))[0]
            attr.set("type", verb if verb == "update" else "remove")
            attr.set("command", st)
        elif verb == "getMore":
            attr.set("command", cmd)
            _, oc = self.command_nogetmore()
            attr.set("originatingCommand", oc)
        elif r.chance(1, 8):
            # error report: command copy under attr.cmd only
            attr.set("cmd", cmd)
            attr.set("error", "OperationFailed: zqerrtext")
        else:
            attr.set("command", cmd)
        if r.chance(1, 12):
            # a command attribute of the wrong kind in front of the real one(s)
            for ck in ("originatingCommand", "cmd"):
                if not attr.has(ck) and r.chance(1, 2):
                    a2 = Obj([(ck, r.choice([None, "zqnotadoc", Num("7"), [], True]))])
                    for kk, vv in attr:
                        a2.set(kk, vv)
                    attr = a2
        ps = r.below(5)
        if ps == 0:
            attr.set("planSummary", "COLLSCAN")
        elif ps == 1 and self.fields:
            attr.set("planSummary", "IXSCAN { %s: 1 }" % self.field(False))
        elif ps == 2 and len(self.fields) > 1:
            attr.set("planSummary", "IXSCAN { %s: 1, %s: -1 }, IXSCAN { %s: 1 }" % (self.field(False), self.field(False), self.field(False)))
        elif ps == 3:
            attr.set("planSummary", "IDHACK")
        elif ps == 4 and self.fields and r.chance(1, 2):
            # a compound index in which one key is a proper prefix of a later key
            f = self.field(False)
            attr.set("planSummary", r.choice(["IXSCAN { %s: 1, %sId: 1 }", "IXSCAN { %s: 1, %s.tags: -1 }", "IXSCAN { %sx: 1, %s: 1, %s_2: -1 }"]).replace("%s", f))
        for kk, vv in [("keysExamined", Num(str(r.below(10 ** 6)))), ("docsExamined", Num("12345678901234567890")), ("nreturned", Num("0")),
                       ("queryHash", "AB12CD34"), ("reslen", Num("2.50e+3")), ("locks", Obj([("Global", Obj([("acquireCount", Obj([("r", Num("2"))]))]))])),
                       ("storage", Obj([])), ("protocol", "op_msg"), ("durationMillis", Num(str(r.below(9000))))]:
            if r.chance(2, 3):
                attr.set(kk, vv)
        if self.exotic and r.chance(1, 4):
            # deep nesting with UNSORTED keys outside the zones: key order must survive at any depth
            deep = Obj([("zz", Num("1")), ("aa", "kept"), ("mm", [Num("2"), Obj([("y", None), ("b", True)])])])
            for lvl in range(r.choice([20, 33, 40, 70])):
                deep = Obj([("z%d" % (lvl % 3), deep), ("a", Num(str(lvl)))]) if lvl % 2 else Obj([("n", deep), ("b", "k"), ("a", [deep] if lvl % 7 == 3 else Num("0"))])
            attr.set("zqdeepmeta", deep)
        if self.exotic and r.chance(1, 2):
            attr.set("appName", kept_text(r))
            if r.chance(1, 3):
                attr.set("comment" + kept_text(r)[:6], Obj([(kept_text(r)[:8], [kept_text(r)])]))
        msg = "Slow query" if r.chance(3, 4) else "command"
        return dedupe(Obj([("t", Obj([("$date", "2024-05-0%dT12:00:0%d.123+00:00" % (1 + r.below(9), r.below(10)))])), ("s", "I"), ("c", comp), ("id", Num("51803")),
                           ("ctx", "conn%d" % r.below(9999)), ("msg", msg), ("attr", attr)]))

    def command_nogetmore(self):
        while True:
            v, c = self.command()
            if v != "getMore":
                return v, c


KEPT_TEXTS = ["peer 10.20.30.40:27017 and 192.168.0.1", "ends with a backslash\\", "C:\\Users\\bob\\", "app\x1fname", "a\x1e", "\x7f", "mongosh 2.1 <&> \u2028", "pre\\u003cescaped\\u003e \\u0026", "\\\\u003c", "tab\there", "q\"uote", "back\\slash", "nul\x00", "é中\U0001F600",
              "plain", "<b>", "a&b", "discount 100% off", "%s %d %v", "%", "100%!", "\\u0041", "\\n", "\\", "\\\\", "/slash\\/", "\x1f", "x\x1fy\x1fz", "\ud7ff\ue000", "\ufffd", "\x01\x02\x03"]


def kept_text(r):
    return KEPT_TEXTS[r.below(len(KEPT_TEXTS))]


def r_choice_fix(r, xs):
    return xs[r.below(len(xs))]


# ---------------------------------------------------------------------- other-component lines

def other_line(rng, i=0):
    r = rng
    k = r.below(5)
    base = [("t", Obj([("$date", "2024-05-01T12:00:00.000+00:00")])), ("s", r.choice(["I", "W", "E"])), ("c", r.choice(["NETWORK", "ACCESS", "STORAGE", "REPL", "CONTROL", "-", "ASIO"])),
            ("id", Num(str(20000 + r.below(9999)))), ("ctx", "listener"), ("msg", r.choice(["Connection accepted", "Authentication succeeded", "WiredTiger message", "Interrupted"]))]
    if k == 0:
        attr = Obj([("remote", "192.168.%d.%d:%d" % (r.below(256), r.below(256), 1024 + r.below(6000))), ("uuid", Obj([("uuid", Obj([("$uuid", "aaaaaaaa-bbbb-cccc-dddd-eeeeeeeeeeee")]))])), ("connectionId", Num(str(r.below(99999)))), ("connectionCount", Num("18446744073709551615"))])
    elif k == 1:
        attr = Obj([("ns", "admin.system.users"), ("keyId", Num("7123456789012345097")), ("vals", [[], [[]], [Num("1.0e10"), Num("-0"), Num("1E-7")], [[Obj([("k", Num("1"))])]]])])
    elif k == 2:
        attr = Obj([("message", Obj([("ts_sec", Num("1716000000")), ("msg", "checkpoint <&>   done \"q\"")])), ("nested", Obj([("a", [None, True, False, Obj([])])]))])
    elif k == 3:
        attr = Obj([("command", Obj([("filter", Obj([("not_a_zone", "kept because component is not gated")]))])), ("ns", "db1.c1"), ("remote", Num("5"))])
    else:
        return Obj(base)
    return Obj(base + [("attr", attr)])


# ---------------------------------------------------------------------- arbitrary trees

def vocab(tables):
    v = set()
    for name in ("CoreOperators", "AggregationOperators", "SearchOperators", "SearchAggregationOperators", "OperatorMapDefs"):
        for p, _ in table_paths(tables[name]):
            v.update(p)
    v.update(["$numberLong", "$regularExpression", "pattern", "options", "$literal", "$concat", "$sum"])
    return sorted(v)


def arb_tree(rng, voc, depth=0, users=("a", "b", "name", "ssn", "x.y", "")):
    r = rng
    k = r.below(14)
    if depth > 4:
        k = k % 7
    if k == 0:
        return "lit%d" % r.below(1000)
    if k == 1:
        return Num(str(r.below(100)))
    if k == 2:
        return r.chance(1, 2)
    if k == 3:
        return None
    if k == 4:
        return "$" + r.choice(users)
    if k == 5:
        return r.choice(["u@e.com", "", "$", "$$ROOT", "REDACTED", "0", "a@b"])
    if k == 6:
        return r.choice([Obj([]), []])
    if k < 10:
        o = Obj()
        for _ in range(r.below(4)):
            key = r.choice(voc) if r.chance(2, 3) else r.choice(users)
            o.set(key, arb_tree(r, voc, depth + 1, users))
        return o
    return [arb_tree(r, voc, depth + 1, users) for _ in range(r.below(4))]


VALUE_KINDS = [
    ("str", lambda: "vlit"), ("dollar", lambda: "$fld"), ("email", lambda: "u@e.com"), ("num", lambda: Num("42")), ("bool", lambda: True),
    ("null", lambda: None), ("eobj", lambda: Obj([])), ("earr", lambda: []),
    ("date", lambda: Obj([("$date", "2020-01-01T00:00:00Z")])), ("oid", lambda: Obj([("$oid", "5f0000000000000000000001")])),
    ("bin", lambda: Obj([("$binary", Obj([("base64", "QUJD"), ("subType", "04")]))])),
    ("arrlit", lambda: ["alit", Num("7"), "$r"]), ("arrarr", lambda: [["alit2"], []]), ("arrobj", lambda: [Obj([("k", "olit")])]),
    ("obj", lambda: Obj([("k", "olit2"), ("n", Num("3"))])), ("badwrap", lambda: Obj([("$date", Num("1")), ("$oid", None), ("$binary", Obj([("base64", Num("2"))]))])),
    ("objop", lambda: Obj([("$eq", "oplit"), ("$in", ["inlit"])])),
    ("uuid", lambda: Obj([("$uuid", "3f2b8c1e-9a4d-4e7b-8c21-5d6f7a8b9c0d")])), ("uuidstr", lambda: "3f2b8c1e-9a4d-4e7b-8c21-5d6f7a8b9c0d"),
    ("long", lambda: Obj([("$numberLong", "9223372036854775807")])), ("dec", lambda: Obj([("$numberDecimal", "1.50")])),
]


def nest(path, leaf):
    """value tree that puts `leaf` under the key path `path`"""
    v = leaf
    for k in reversed(path):
        v = Obj([(k, v)])
    return v


def sweep_cases(tables):
    """(kind-of-op, tree) for every table path x value kind x position. Exhaustive."""
    out = []
    srcs = [("agg", tables["AggregationOperators"]), ("sagg", tables["SearchAggregationOperators"]), ("core", tables["CoreOperators"]), ("search", tables["SearchOperators"])]
    seen = set()
    for tname, tb in srcs:
        for path, leaf in table_paths(tb):
            if tname in ("core", "search") and len(path) == 1 and (tname, path) in seen:
                continue
            seen.add((tname, path))
            for vk, mk in VALUE_KINDS:
                out.append((tname, path, vk, mk()))
    return out


def wrap_positions(tname, path, val):
    """stage / filter trees that place key path `path` (holding val) at the relevant positions"""
    st = nest(path, val)
    res = []
    if tname in ("agg", "sagg"):
        res.append(("stage", st))
        res.append(("stage", Obj([("$facet", Obj([("f", [st])]))])))
        res.append(("stage", Obj([("$lookup", Obj([("from", "c2"), ("pipeline", [st]), ("as", "o")]))])))
        if tname == "sagg" and len(path) >= 2:
            # below an operator map with an arbitrary key in between
            res.append(("stage", Obj([("$searchMeta", Obj([("facet", Obj([("facets", Obj([("anyname", nest(path[1:], val))]))]))]))])))
    elif tname == "core":
        res.append(("query", Obj([("fld", st)])))
        res.append(("query", st if isinstance(st, Obj) else Obj([("fld", st)])))
        res.append(("stage", Obj([("$match", Obj([("fld", st)]))])))
        res.append(("stage", Obj([("$match", Obj([("$expr", st)]))])))
        res.append(("stage", Obj([("$search", Obj([("equals", Obj([("path", "p"), ("value", st)]))]))])))
    else:  # search operators
        res.append(("stage", Obj([("$search", st)])))
        res.append(("stage", Obj([("$search", Obj([("compound", Obj([("must", [st]), ("should", [Obj([("embeddedDocument", Obj([("path", "p"), ("operator", st)]))])])]))]))])))
        res.append(("stage", Obj([("$searchMeta", Obj([("facet", Obj([("operator", st), ("facets", Obj([("nm", Obj([("type", "string"), ("path", "p"), ("default", val)]))]))]))]))])))
    return res


# ---------------------------------------------------------------------- malformed lines

def malformed(rng, good_line):
    """byte strings that are not (or not only) a JSON object"""
    r = rng
    g = good_line.encode()
    out = [b"", b" ", b"\t \r", b"null", b"true", b"1", b"-0.5e3", b'"str"', b"[1]", b"[]", b"[{}]", b"{", b"}", b"{}", b"{} x", b"{}{}", b"{} {}",
           b'{"a":1,}', b'{"a":}', b'{"a" 1}', b"{'a':1}", b'{"a":01}', b'{"a":1.}', b'{"a":+1}', b'{"a":.5}', b'{"a":1e}', b'{"a":tru}', b'{"a":nul',
           b'{"a":"\x01"}', b'{"a":"\\x"}', b'{"a":"\\u12"}', b'{"a":"\\ud800"}', b'{"a":"\\ud800\\udc00"}', b'{"a":"\\udc00\\ud800"}', b'{"a":"\\ud800\\u0041"}',
           b'{"a":"\xff\xfe"}', b'{"a":"\xc3"}', b'{"a":"\xe2\x82"}', b'{"a":"\xed\xa0\x80"}', b'{"a":"\xf0\x9f\x98\x80"}', b'{"a":"\xc0\xaf"}', b'{"\xff":1}',
           b'\xef\xbb\xbf{"a":1}', b'{"a":1}\x00', b'{"a":[1 2]}', b'{"a":[1,]}', b'{"a":[,1]}', b'{"a":{"b":[}}', b'{"a":1 "b":2}', b'{"a":1,,"b":2}', b'{"a":1:2}',
           b'{"a":1,"a":2,"b":3,"a":{"c":4}}', b'{"attr":null,"c":"COMMAND"}', b'{"attr":5}', b'{"attr":[],"msg":"Slow query"}', b'{"c":1,"msg":2,"attr":{"command":"x","ns":3,"remote":4}}',
           b'2024-05-01T12:00:00.000+0000 I NETWORK  [conn1] end connection', b'2024 text', b'-', b'\x00', b'\xff', b'{"a":"' + b"x" * 100 + b'"}  \t',
           b'{"attr":{"command":{"filter":{"$date":1,"$oid":null,"base64":true}}},"c":"COMMAND"}',
           b'{"c":"COMMAND","attr":{"command":{"pipeline":[1,"s",null,[],[[]],{"$match":5},{"$facet":7},{"$facet":{"a":1}},{"$lookup":[]},{"$search":[{"text":1}]}]}}}',
           b'{"c":"QUERY","attr":{"command":{"filter":[],"query":1,"sort":"x","update":2,"updates":{},"q":[],"u":"s","documents":[1],"insert":1,"pipeline":{},"deletes":5,"arrayFilters":{}}}}',
           b'{"c":"WRITE","attr":{"originatingCommand":[1],"cmd":"x","command":null,"planSummary":5,"ns":{}}}',
           b'{"c":"COMMAND","attr":{"originatingCommand":null,"cmd":"x","command":{"find":"c","filter":{"a":"zqsecretafterbadattr"}}}}',
           b'{"c":"COMMAND","attr":{"cmd":[],"command":{"find":"c","filter":{"a":"zqsecretafterbadattr"}},"originatingCommand":{"find":"c","filter":{"b":"zqsecret2"}}}}',
           b'  ' + g, b'\t' + g, g + b' ', g + b'\t\t', b' ' + g + b' \r', b'\r' + g, b'\n' + g, g + b'\r\r', b'\x0b' + g, b'\x0c' + g, b'\xc2\xa0' + g, b'\xef\xbb\xbf' + g,
           b'{"a\\nb":1,"c\\\\d":{"e\\u0000f":[{"g\\"h":2}]},"\\u2028":3,"<k>":4,"k\\u00e9":5}',
           b'{"c":"COMMAND","attr":{"command":{"filter":{"k\\ney":"v","back\\\\slash":"w","q\\"uote":{"$in":["x"]},"tab\\tkey":1}}}}',
           ]
    # truncations of a real line
    for _ in range(12):
        out.append(g[: r.below(len(g) + 1)])
    # trailing garbage / duplicates / byte flips
    out.append(g + b" trailing")
    out.append(g + g)
    out.append(g + b"\r")
    for _ in range(8):
        b = bytearray(g)
        if b:
            b[r.below(len(b))] = r.below(256)
        out.append(bytes(b))
    for _ in range(4):
        i = r.below(len(g) + 1)
        out.append(g[:i] + bytes([r.below(256)]) + g[i:])
    return out
