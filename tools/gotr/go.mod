module verifgotr

go 1.23
