// gotr — translator from a subset of Go to Lean 4 (`do` notation over `Option`), used to regenerate
// lean/Anonymongo/Generated/Src.lean from /repo/src on every run.  The meaning of every construct it emits is
// defined in lean/Anonymongo/Model/GoSem.lean.  A function containing a construct outside the subset is not
// emitted; it is reported (JSON on stdout: {"lean": "...", "ok": [...], "failed": {"fn": "why"}}) and the caller
// writes a stub for it, so that exactly the obligations about that function stop checking.
//
// usage: gotr <src-dir>
package main

import (
	"encoding/json"
	"fmt"
	"go/ast"
	"go/parser"
	"go/token"
	"os"
	"path/filepath"
	"sort"
	"strconv"
	"strings"
)

// ---------------------------------------------------------------------------------------------
// types of the target language

type ty struct {
	k     string // Str Bool Int Bytes OptBytes StrList PtrStrList J JList JObj Meta Table Re Err Char Entry Tuple Nil Nat
	elems []*ty  // Tuple members; Entry: [value type]
}

func (t *ty) String() string {
	if t == nil {
		return "?"
	}
	if t.k == "Tuple" || t.k == "Entry" {
		s := []string{}
		for _, e := range t.elems {
			s = append(s, e.String())
		}
		return t.k + "(" + strings.Join(s, ",") + ")"
	}
	return t.k
}

func T(k string) *ty { return &ty{k: k} }

func (t *ty) lean() string {
	switch t.k {
	case "Str":
		return "Str"
	case "Bool", "Err":
		return "Bool"
	case "Int":
		return "Int"
	case "Bytes":
		return "Bytes"
	case "OptBytes":
		return "(Option Bytes)"
	case "StrList", "PtrStrList":
		return "(List Str)"
	case "J":
		return "J"
	case "JList":
		return "(List J)"
	case "JObj":
		return "(List (Str × J))"
	case "Meta":
		return "Meta"
	case "Table":
		return "MTable"
	case "Re":
		return "(Option (Str → Bool))"
	case "FileInfo":
		return "(Option Bool)"
	case "StatErr":
		return "Nat"
	case "Tuple":
		s := []string{}
		for _, e := range t.elems {
			s = append(s, e.lean())
		}
		return "(" + strings.Join(s, " × ") + ")"
	}
	return "?"
}

func same(a, b *ty) bool {
	if a.k != b.k {
		// the two spellings of a string list, and error / bool, are one Lean type
		n := func(k string) string {
			if k == "PtrStrList" {
				return "StrList"
			}
			return k
		}
		return n(a.k) == n(b.k)
	}
	if len(a.elems) != len(b.elems) {
		return false
	}
	for i := range a.elems {
		if !same(a.elems[i], b.elems[i]) {
			return false
		}
	}
	return true
}

// ---------------------------------------------------------------------------------------------
// what the translator knows about the package: how the ambiguous Go types of each function are read,
// the package-level names, and the callees outside the translated set

// functions emitted in continuation style: one Lean function per top-level statement, each taking the variables in scope and
// ending in a call of the next (an early `return` in a statement is then simply that function's result)
var cpsFuncs = map[string]bool{"RedactMongoLog": true}

type sig struct {
	params  map[string]string // parameter POSITION ("0", "1", …) -> reading of an interface{} / *OrderedMap parameter
	results []string          // reading of each result
	locals  map[string]string // local variable -> reading (for `var x any`, `NewOrderedMap()`)
}

var sigs = map[string]sig{
	"reMatchesAnyKeyInPath":           {},
	"redactString":                    {},
	"withinSearchUserDocument":        {},
	"RemoveElementAfter":              {},
	"RemoveElementsBeforeIncluding":   {},
	"IsEmail":                         {},
	"traverseMapPath":                 {params: map[string]string{"1": "Table"}, results: []string{"Meta", "Bool"}},
	"getOp":                           {results: []string{"Meta", "Bool"}},
	"redactScalarValue":               {results: []string{"J"}},
	"isFieldNameValue":                {},
	"isRedactableFieldPatternInArray": {},
	"isInSearchStage":                 {},
	"augmentOp":                       {params: map[string]string{"0": "Table", "1": "JObj"}, results: []string{"Table"}},
	"redactQueryValues":               {params: map[string]string{"3": "Meta"}},
	"redactArrayValuesWithKey":        {},
	"redactArrayValues":               {},
	"HashName":                        {},
	"redactNamespaceFields":           {},
	"redactOperation":                 {},
	"redactCommand":                   {},
	"redactNamespace":                 {},
	"RedactMongoLog":                  {},
	"ReadKeyFromFile":                 {},
	"WriteKeyToFile":                  {},
	"FileExists":                      {},
}

// functions that call one another: emitted in one `mutual` block, all with a fuel argument
var mutualGroups = [][]string{{"redactQueryValues", "redactArrayValuesWithKey"}}

// emission order (callees first)
var order = []string{"HashName", "reMatchesAnyKeyInPath", "redactString", "IsEmail", "withinSearchUserDocument", "RemoveElementAfter", "RemoveElementsBeforeIncluding",
	"traverseMapPath", "getOp", "redactScalarValue", "isFieldNameValue", "isRedactableFieldPatternInArray", "isInSearchStage", "augmentOp",
	"redactQueryValues", "redactArrayValuesWithKey", "redactArrayValues", "redactNamespaceFields", "redactOperation", "redactCommand", "redactNamespace", "RedactMongoLog", "ReadKeyFromFile", "WriteKeyToFile", "FileExists"}

type gname struct {
	lean string
	t    *ty
}

var globals = map[string]gname{
	"redactedString":             {"g.redactedString", T("Str")},
	"redactNumbers":              {"g.redactNumbers", T("Bool")},
	"redactBooleans":             {"g.redactBooleans", T("Bool")},
	"redactIPs":                  {"g.redactIPs", T("Bool")},
	"shouldEncrypt":              {"g.shouldEncrypt", T("Bool")},
	"redactNamespaces":           {"g.redactNamespaces", T("Bool")},
	"encryptionKey":              {"g.encryptionKey", T("OptBytes")},
	"redactedFieldsRegexp":       {"g.redactedFieldsRegexp", T("Re")},
	"emailRegex":                 {"(some emailRe)", T("Re")},
	"eagerRedactionPaths":        {"g.eagerRedactionPaths", T("StrList")},
	"CoreOperators":              {"T.core", T("Table")},
	"AggregationOperators":       {"T.agg", T("Table")},
	"SearchOperators":            {"T.search", T("Table")},
	"SearchAggregationOperators": {"T.searchAgg", T("Table")},
	"OperatorMapDefs":            {"T.opMapDefs", T("Table")},
	"TopLevelSearchOperators":    {"T.topSearch", T("StrList")},
	"Pipeline":                   {"(Meta.ty .Pipeline)", T("Meta")},
	"Exempt":                     {"(Meta.ty .Exempt)", T("Meta")},
	"Redactable":                 {"(Meta.ty .Redactable)", T("Meta")},
	"FieldName":                  {"(Meta.ty .FieldName)", T("Meta")},
	"OperatorArray":              {"(Meta.ty .OperatorArray)", T("Meta")},
	"OperatorMap":                {"(Meta.ty .OperatorMap)", T("Meta")},
	"Namespace":                  {"(Meta.ty .Namespace)", T("Meta")},
	"RedactedISODate":            {"T.isoDate", T("Str")},
	"RedactedObjectId":           {"T.objectId", T("Str")},
	"RedactedUUID":               {"T.uuid", T("Str")},
	"RedactedNumber":             {"(J.num T.number)", T("J")},
	"RedactedBoolean":            {"(J.bool T.boolean)", T("J")},
	"true":                       {"true", T("Bool")},
	"false":                      {"false", T("Bool")},
}

type unsupported struct{ msg string }

type fnInfo struct {
	decl    *ast.FuncDecl
	params  []*ty
	pnames  []string
	results []*ty
	fuel    bool // takes a fuel argument
	rec     bool // calls itself
	proc    bool // no results in Go: the map passed first is updated in place; the Lean function returns the updated map
}

type tr struct {
	fset   *token.FileSet
	fns    map[string]*fnInfo
	cur    string
	sg     sig
	scopes []map[string]gname
	used   map[string]int
	mut    map[string]bool
	out    []string
	inLoop int
	// aliasing of nested maps / slices obtained from an enclosing map: where a value came from (`x, ok := m.Get(k)`; `for _, x := range xs`)
	// and, for a map / slice asserted out of such a value, where an update of it has to be written back
	src  map[string]origin // Go variable holding a JSON value -> where it was read
	prov map[string]origin // Go variable holding a map / slice asserted from such a value -> where it lives
	// `xs[i]` inside `for i := 0; i < len(xs); i++` over a string slice the body never assigns: the Lean name of the element
	elemAlias map[string]string
}

type origin struct {
	parent string // Go name of the enclosing map / slice variable
	key    string // Lean term of the key (maps) or of the index (slices)
	isIdx  bool
}

func (x *tr) bad(n ast.Node, what string) {
	p := x.fset.Position(n.Pos())
	panic(unsupported{fmt.Sprintf("%s:%d: %s", filepath.Base(p.Filename), p.Line, what)})
}

func (x *tr) emit(ind int, s string) { x.out = append(x.out, strings.Repeat("  ", ind)+s) }

func (x *tr) push()              { x.scopes = append(x.scopes, map[string]gname{}) }
func (x *tr) pop()               { x.scopes = x.scopes[:len(x.scopes)-1] }
func (x *tr) lookup(n string) (gname, bool) {
	for i := len(x.scopes) - 1; i >= 0; i-- {
		if g, ok := x.scopes[i][n]; ok {
			return g, true
		}
	}
	return gname{}, false
}

var leanKeywords = map[string]bool{"exists": true, "end": true, "at": true, "from": true, "open": true, "in": true, "fun": true, "match": true, "with": true, "do": true, "then": true, "else": true, "if": true, "let": true, "have": true, "show": true, "by": true, "namespace": true, "section": true, "instance": true, "structure": true, "class": true, "def": true, "theorem": true, "where": true, "mut": true, "for": true, "return": true, "type": true, "Type": true, "g": true, "T": true, "fuel": true}

// declare a Go variable; the Lean name is made unique within the function so that Go's block scoping and
// Lean's `let` shadowing cannot disagree
func (x *tr) declare(n string, t *ty) string {
	if n == "_" {
		return "_"
	}
	base := n
	if leanKeywords[n] {
		base = n + "_"
	}
	x.used[base]++
	ln := base
	if x.used[base] > 1 {
		ln = fmt.Sprintf("%s_%d", base, x.used[base])
	}
	x.scopes[len(x.scopes)-1][n] = gname{ln, t}
	declCounter++
	declOrder[ln] = declCounter
	cpsMemo[x.cur+"/"+n] = gname{ln, t}
	return ln
}

// ---------------------------------------------------------------------------------------------
// Go types

func typeString(e ast.Expr) string {
	switch t := e.(type) {
	case *ast.Ident:
		return t.Name
	case *ast.StarExpr:
		return "*" + typeString(t.X)
	case *ast.ArrayType:
		if t.Len == nil {
			return "[]" + typeString(t.Elt)
		}
	case *ast.SelectorExpr:
		return typeString(t.X) + "." + t.Sel.Name
	case *ast.InterfaceType:
		if t.Methods == nil || len(t.Methods.List) == 0 {
			return "any"
		}
	case *ast.IndexListExpr:
		s := []string{}
		for _, i := range t.Indices {
			s = append(s, typeString(i))
		}
		return typeString(t.X) + "[" + strings.Join(s, ",") + "]"
	case *ast.IndexExpr:
		return typeString(t.X) + "[" + typeString(t.Index) + "]"
	}
	return "?"
}

func (x *tr) goType(e ast.Expr, reading string) *ty {
	s := typeString(e)
	switch s {
	case "string":
		return T("Str")
	case "bool":
		return T("Bool")
	case "int":
		return T("Int")
	case "[]string":
		return T("StrList")
	case "*[]string":
		return T("PtrStrList")
	case "[]byte":
		return T("Bytes")
	case "*regexp.Regexp":
		return T("Re")
	case "error":
		return T("Err")
	case "any":
		if reading == "Meta" {
			return T("Meta")
		}
		return T("J")
	case "[]any":
		return T("JList")
	case "*orderedmap.OrderedMap[string,any]", "orderedmap.OrderedMap[string,any]":
		if reading == "Table" {
			return T("Table")
		}
		return T("JObj")
	}
	x.bad(e, "type "+s+" is outside the subset")
	return nil
}

// ---------------------------------------------------------------------------------------------
// expressions.  Result: Lean term (may contain nested actions `(← …)`), its type, whether it contains one.

type ex struct {
	s       string
	t       *ty
	partial bool
}

func (x *tr) coerce(n ast.Node, e ex, to *ty) ex {
	if e.t.k == "Nil" {
		switch to.k {
		case "Meta":
			return ex{"Meta.nil", to, false}
		case "J":
			return ex{"J.null", to, false}
		case "Re", "OptBytes":
			return ex{"none", to, false}
		case "StrList":
			return ex{"([] : List Str)", to, false}
		case "Bytes":
			return ex{"([] : Bytes)", to, false}
		case "JObj":
			return ex{"([] : List (Str × J))", to, false} // the nil map returned next to an error: never looked at
		case "Err":
			return ex{"false", to, false}
		}
		x.bad(n, "nil used as "+to.String())
	}
	if same(e.t, to) {
		return e
	}
	w := func(c string) ex { return ex{"(" + c + " " + e.s + ")", to, e.partial} }
	switch e.t.k + ">" + to.k {
	case "Table>Meta":
		return w("Meta.map")
	case "Str>J":
		return w("J.str")
	case "JObj>J":
		return w("J.obj")
	case "JList>J":
		return w("J.arr")
	case "Bool>J":
		return w("J.bool")
	}
	x.bad(n, "cannot use "+e.t.String()+" as "+to.String())
	return e
}

// string literals become named constants (`def s_… : Str := "…".toList`, emitted in front of the functions): `simp` does
// not look inside a constant, while a literal under `.toList` sends it into the representation of `String`
var litNames = map[string]string{}
var litOrder = []string{}

func strLean(s string) string {
	if n, ok := litNames[s]; ok {
		return n
	}
	var b strings.Builder
	b.WriteString("s_")
	if s == "" {
		b.WriteString("empty")
	}
	for _, c := range []byte(s) {
		if (c >= 'a' && c <= 'z') || (c >= 'A' && c <= 'Z') || (c >= '0' && c <= '9') {
			b.WriteByte(c)
		} else {
			fmt.Fprintf(&b, "_%02x", c)
		}
	}
	litNames[s] = b.String()
	litOrder = append(litOrder, s)
	return b.String()
}

func (x *tr) lenOf(n ast.Node, a ex) ex {
	switch a.t.k {
	case "Str":
		return ex{"(strLen " + a.s + ")", T("Int"), a.partial}
	case "StrList", "PtrStrList", "JList", "Bytes", "JObj", "Table":
		return ex{"(len " + a.s + ")", T("Int"), a.partial}
	}
	x.bad(n, "len of "+a.t.String())
	return a
}

func (x *tr) expr(e ast.Expr) ex {
	switch v := e.(type) {
	case *ast.ParenExpr:
		return x.expr(v.X)
	case *ast.BasicLit:
		switch v.Kind {
		case token.STRING:
			s, err := strconv.Unquote(v.Value)
			if err != nil {
				x.bad(v, "string literal")
			}
			return ex{strLean(s), T("Str"), false}
		case token.INT:
			// Go spells integers in several bases (0600 is octal): emit the value in decimal
			n, err := strconv.ParseInt(v.Value, 0, 64)
			if err != nil {
				x.bad(v, "integer literal")
			}
			return ex{"(" + strconv.FormatInt(n, 10) + " : Int)", T("Int"), false}
		case token.CHAR:
			c, _, _, err := strconv.UnquoteChar(v.Value[1:len(v.Value)-1], '\'')
			if err != nil || c > 126 || c < 32 || c == '\'' || c == '\\' {
				x.bad(v, "character literal")
			}
			return ex{"'" + string(c) + "'", T("Char"), false}
		}
		x.bad(v, "literal")
	case *ast.Ident:
		if v.Name == "nil" {
			return ex{"nil", T("Nil"), false}
		}
		if g, ok := x.lookup(v.Name); ok {
			return ex{g.lean, g.t, false}
		}
		if g, ok := globals[v.Name]; ok {
			return ex{g.lean, g.t, false}
		}
		x.bad(v, "identifier "+v.Name+" is not known to the translator")
	case *ast.UnaryExpr:
		a := x.expr(v.X)
		switch v.Op {
		case token.NOT:
			if a.t.k != "Bool" {
				x.bad(v, "! of "+a.t.String())
			}
			return ex{"(!" + a.s + ")", T("Bool"), a.partial}
		case token.AND:
			if a.t.k == "StrList" {
				return ex{a.s, T("PtrStrList"), a.partial}
			}
		case token.SUB:
			if a.t.k == "Int" {
				return ex{"(-" + a.s + ")", T("Int"), a.partial}
			}
		}
		x.bad(v, "unary "+v.Op.String())
	case *ast.StarExpr:
		a := x.expr(v.X)
		switch a.t.k {
		case "PtrStrList":
			return ex{a.s, T("StrList"), a.partial}
		case "Table", "JObj":
			return a
		}
		x.bad(v, "dereference of "+a.t.String())
	case *ast.BinaryExpr:
		return x.binary(v)
	case *ast.IndexExpr:
		a := x.expr(v.X)
		i := x.expr(v.Index)
		if i.t.k != "Int" {
			x.bad(v, "index type")
		}
		if xi, ok := v.X.(*ast.Ident); ok {
			if ii, ok := v.Index.(*ast.Ident); ok {
				if vn, ok := x.elemAlias[xi.Name+"["+ii.Name+"]"]; ok {
					return ex{vn, T("Str"), false}
				}
			}
		}
		switch a.t.k {
		case "StrList", "PtrStrList":
			return ex{"(← idx " + a.s + " " + i.s + ")", T("Str"), true}
		case "JList":
			return ex{"(← idx " + a.s + " " + i.s + ")", T("J"), true}
		}
		x.bad(v, "indexing of "+a.t.String()+" (strings only as s[0] == 'c')")
	case *ast.SliceExpr:
		if v.Slice3 {
			x.bad(v, "3-index slice")
		}
		a := x.expr(v.X)
		if a.t.k != "StrList" && a.t.k != "JList" && a.t.k != "Bytes" {
			x.bad(v, "slicing of "+a.t.String())
		}
		r := a
		if v.High != nil {
			h := x.expr(v.High)
			r = ex{"(← sliceTo " + r.s + " " + h.s + ")", a.t, true}
			if v.Low != nil {
				x.bad(v, "two-sided slice")
			}
			return r
		}
		if v.Low != nil {
			l := x.expr(v.Low)
			return ex{"(← sliceFrom " + r.s + " " + l.s + ")", a.t, true}
		}
		return a
	case *ast.CompositeLit:
		if typeString(v.Type) == "[]string" {
			el := []string{}
			p := false
			for _, e := range v.Elts {
				a := x.expr(e)
				if a.t.k != "Str" {
					x.bad(e, "element type")
				}
				p = p || a.partial
				el = append(el, a.s)
			}
			return ex{"([" + strings.Join(el, ", ") + "] : List Str)", T("StrList"), p}
		}
		x.bad(v, "composite literal of "+typeString(v.Type))
	case *ast.TypeAssertExpr:
		// single-value (unchecked) assertion
		a := x.expr(v.X)
		if v.Type == nil {
			x.bad(v, "type switch guard outside a switch")
		}
		ts := typeString(v.Type)
		if a.t.k == "J" && ts == "string" {
			return ex{"(← assertStr " + a.s + ")", T("Str"), true}
		}
		x.bad(v, "unchecked assertion "+a.t.String()+".("+ts+")")
	case *ast.SelectorExpr:
		a := x.expr(v.X)
		if a.t.k == "Entry" {
			switch v.Sel.Name {
			case "Key":
				return ex{a.s + ".1", T("Str"), a.partial}
			case "Value":
				return ex{a.s + ".2", a.t.elems[0], a.partial}
			}
		}
		x.bad(v, "selector ."+v.Sel.Name+" on "+a.t.String())
	case *ast.CallExpr:
		r := x.call(v)
		return r
	}
	x.bad(e, fmt.Sprintf("expression %T", e))
	return ex{}
}

func (x *tr) isNilCmp(n ast.Node, a ex, neg bool) ex {
	var s string
	switch a.t.k {
	case "Meta":
		s = "(metaEq " + a.s + " Meta.nil)"
	case "Re", "OptBytes":
		s = "(" + a.s + ").isNone"
	case "Err":
		s = "(!" + a.s + ")"
	case "J":
		s = "(isNull " + a.s + ")"
	case "PtrStrList":
		s = "false" // the address of a variable
	case "JObj", "Table":
		s = "false" // a map pointer obtained from a successful type assertion or a constructor: never nil at any call site
	default:
		x.bad(n, "comparison of "+a.t.String()+" with nil")
	}
	if neg {
		s = "(!" + s + ")"
	}
	return ex{s, T("Bool"), a.partial}
}

func (x *tr) binary(v *ast.BinaryExpr) ex {
	// s[0] == 'c'
	if v.Op == token.EQL || v.Op == token.NEQ {
		if ie, ok := v.X.(*ast.IndexExpr); ok {
			if lit, ok := ie.Index.(*ast.BasicLit); ok && lit.Value == "0" {
				a := x.expr(ie.X)
				if a.t.k == "Str" {
					c := x.expr(v.Y)
					if c.t.k != "Char" {
						x.bad(v, "string byte compared with a non-literal")
					}
					s := "(← strByte0Is " + a.s + " " + c.s + ")"
					if v.Op == token.NEQ {
						s = "(!" + s + ")"
					}
					return ex{s, T("Bool"), true}
				}
			}
		}
	}
	a := x.expr(v.X)
	switch v.Op {
	case token.LAND, token.LOR:
		b := x.expr(v.Y)
		if a.t.k != "Bool" || b.t.k != "Bool" {
			x.bad(v, "&& / || of non-booleans")
		}
		if !b.partial {
			op := "&&"
			if v.Op == token.LOR {
				op = "||"
			}
			return ex{"(" + a.s + " " + op + " " + b.s + ")", T("Bool"), a.partial}
		}
		f := "goAnd"
		if v.Op == token.LOR {
			f = "goOr"
		}
		return ex{"(← " + f + " (do pure " + a.s + ") (fun _ => do pure " + b.s + "))", T("Bool"), true}
	}
	b := x.expr(v.Y)
	p := a.partial || b.partial
	switch v.Op {
	case token.EQL, token.NEQ:
		neg := v.Op == token.NEQ
		if b.t.k == "Nil" {
			r := x.isNilCmp(v, a, neg)
			return r
		}
		if a.t.k == "Nil" {
			return x.isNilCmp(v, b, neg)
		}
		var s string
		switch {
		case a.t.k == "Meta" && b.t.k == "Meta":
			s = "(metaEq " + a.s + " " + b.s + ")"
		case same(a.t, b.t) && (a.t.k == "Str" || a.t.k == "Int" || a.t.k == "Bool" || a.t.k == "Char"):
			s = "(" + a.s + " == " + b.s + ")"
		default:
			x.bad(v, "== of "+a.t.String()+" and "+b.t.String())
		}
		if neg {
			s = "(!" + s + ")"
		}
		return ex{s, T("Bool"), p}
	case token.LSS, token.GTR, token.LEQ, token.GEQ:
		if a.t.k != "Int" || b.t.k != "Int" {
			x.bad(v, "ordering of non-integers")
		}
		return ex{"(decide (" + a.s + " " + map[token.Token]string{token.LSS: "<", token.GTR: ">", token.LEQ: "≤", token.GEQ: "≥"}[v.Op] + " " + b.s + "))", T("Bool"), p}
	case token.ADD, token.SUB, token.MUL:
		if a.t.k == "Int" && b.t.k == "Int" {
			return ex{"(" + a.s + " " + v.Op.String() + " " + b.s + ")", T("Int"), p}
		}
		if v.Op == token.ADD && a.t.k == "Str" && b.t.k == "Str" {
			return ex{"(" + a.s + " ++ " + b.s + ")", T("Str"), p}
		}
	}
	x.bad(v, "operator "+v.Op.String()+" on "+a.t.String()+", "+b.t.String())
	return ex{}
}

func calleeName(c *ast.CallExpr) string {
	switch f := c.Fun.(type) {
	case *ast.Ident:
		return f.Name
	case *ast.SelectorExpr:
		return typeString(f)
	case *ast.IndexListExpr:
		return typeString(f.X)
	case *ast.ArrayType:
		return typeString(f)
	}
	return "?"
}

// call returns the value of a call expression; a multi-value call has a Tuple type
func (x *tr) call(c *ast.CallExpr) ex {
	name := calleeName(c)
	args := func() []ex {
		r := []ex{}
		for _, a := range c.Args {
			r = append(r, x.expr(a))
		}
		return r
	}
	anyPartial := func(a []ex) bool {
		for _, e := range a {
			if e.partial {
				return true
			}
		}
		return false
	}
	if fi, ok := x.fns[name]; ok {
		a := args()
		if len(a) != len(fi.params) {
			x.bad(c, "argument count of "+name)
		}
		s := name + " g T"
		if fi.fuel {
			s += " fuel"
		}
		for i := range a {
			s += " " + x.coerce(c.Args[i], a[i], fi.params[i]).s
		}
		var rt *ty
		if len(fi.results) == 1 {
			rt = fi.results[0]
		} else {
			rt = &ty{k: "Tuple", elems: fi.results}
		}
		return ex{"(← " + s + ")", rt, true}
	}
	switch name {
	case "len":
		a := args()
		return x.lenOf(c, a[0])
	case "append":
		a := args()
		if len(a) != 2 {
			x.bad(c, "append with more than one addend")
		}
		if c.Ellipsis.IsValid() {
			if !same(a[0].t, a[1].t) {
				x.bad(c, "append of different list types")
			}
			return ex{"(" + a[0].s + " ++ " + a[1].s + ")", a[0].t, anyPartial(a)}
		}
		return ex{"(" + a[0].s + " ++ [" + a[1].s + "])", a[0].t, anyPartial(a)}
	case "make":
		if len(c.Args) >= 2 && typeString(c.Args[0]) == "[]string" {
			if lit, ok := c.Args[1].(*ast.BasicLit); ok && lit.Value == "0" {
				return ex{"([] : List Str)", T("StrList"), false}
			}
		}
		if len(c.Args) == 2 && (typeString(c.Args[0]) == "[]string" || typeString(c.Args[0]) == "[]any") {
			n := x.expr(c.Args[1])
			if n.t.k == "Int" {
				if typeString(c.Args[0]) == "[]string" {
					return ex{"(List.replicate (" + n.s + ").toNat ([] : Str))", T("StrList"), n.partial}
				}
				return ex{"(List.replicate (" + n.s + ").toNat J.null)", T("JList"), n.partial}
			}
		}
		x.bad(c, "make other than make([]T, 0, …) / make([]T, n)")
	case "[]byte":
		a := args()
		if a[0].t.k == "Str" {
			return ex{"(utf8 " + a[0].s + ")", T("Bytes"), a[0].partial}
		}
	case "Encrypt":
		a := args()
		if len(a) == 2 && a[0].t.k == "Bytes" && a[1].t.k == "OptBytes" {
			return ex{"(errPair (g.Encrypt " + a[0].s + " " + a[1].s + "))", &ty{k: "Tuple", elems: []*ty{T("Bytes"), T("Err")}}, anyPartial(a)}
		}
	case "base64.StdEncoding.EncodeToString":
		a := args()
		if a[0].t.k == "Bytes" {
			return ex{"(g.b64 " + a[0].s + ")", T("Str"), a[0].partial}
		}
	case "strings.TrimPrefix":
		a := args()
		if a[0].t.k == "Str" && a[1].t.k == "Str" {
			return ex{"(trimPrefix " + a[0].s + " " + a[1].s + ")", T("Str"), anyPartial(a)}
		}
	case "slices.Contains":
		a := args()
		if a[0].t.k == "StrList" && a[1].t.k == "Str" {
			return ex{"(" + a[0].s + ".contains " + a[1].s + ")", T("Bool"), anyPartial(a)}
		}
	case "redactPipelineStage":
		// the stage walker is not translated: it is a parameter (Globals.redactPipelineStage), instantiated by the model's P in the theorems
		a := args()
		if len(a) == 4 && a[0].t.k == "J" && a[1].t.k == "Bool" && a[2].t.k == "StrList" && a[3].t.k == "Bool" {
			return ex{"(← g.redactPipelineStage " + a[0].s + " " + a[1].s + " " + a[2].s + " " + a[3].s + ")", T("J"), true}
		}
	case "os.ReadFile":
		a := args()
		if len(a) == 1 && a[0].t.k == "Str" {
			return ex{"(errPair (g.ReadFile " + a[0].s + "))", &ty{k: "Tuple", elems: []*ty{T("Bytes"), T("Err")}}, a[0].partial}
		}
	case "os.Stat":
		// what FileExists needs of the result: the FileInfo (nil next to an error) read through IsDir, the error read through os.IsNotExist
		a := args()
		if len(a) == 1 && a[0].t.k == "Str" {
			return ex{"(statPair (g.Stat " + a[0].s + "))", &ty{k: "Tuple", elems: []*ty{T("FileInfo"), T("StatErr")}}, a[0].partial}
		}
	case "os.IsNotExist":
		a := args()
		if len(a) == 1 && a[0].t.k == "StatErr" {
			return ex{"(isNotExist " + a[0].s + ")", T("Bool"), a[0].partial}
		}
	case "os.WriteFile":
		// the write is the function's only effect: its three arguments (path, content, permission bits) are what the parameter sees
		a := args()
		if len(a) == 3 && a[0].t.k == "Str" && a[1].t.k == "Bytes" && a[2].t.k == "Int" {
			return ex{"(g.WriteFile " + a[0].s + " " + a[1].s + " " + a[2].s + ")", T("Err"), anyPartial(a)}
		}
	case "base64.StdEncoding.DecodeString":
		// DecodeString(string(b)) for a byte slice b: the decoder reads the bytes
		if len(c.Args) == 1 {
			if cv, ok := c.Args[0].(*ast.CallExpr); ok && calleeName(cv) == "string" && len(cv.Args) == 1 {
				b := x.expr(cv.Args[0])
				if b.t.k == "Bytes" {
					return ex{"(errPair (g.b64dec " + b.s + "))", &ty{k: "Tuple", elems: []*ty{T("Bytes"), T("Err")}}, b.partial}
				}
			}
		}
	case "fmt.Errorf":
		// an error value: only its being non-nil is observable to the translated code (the message goes to stderr)
		for _, a := range c.Args {
			if x.expr(a).partial {
				x.bad(c, "fmt.Errorf with an argument that can panic")
			}
		}
		return ex{"true", T("Err"), false}
	case "UnmarshalOrdered":
		a := args()
		if len(a) == 1 && a[0].t.k == "Bytes" {
			return ex{"(errPairObj (g.UnmarshalOrdered " + a[0].s + "))", &ty{k: "Tuple", elems: []*ty{T("JObj"), T("Err")}}, a[0].partial}
		}
	case "redactFieldNamesFromPlanSummary":
		a := args()
		if len(a) == 1 && a[0].t.k == "Str" {
			return ex{"(g.redactFieldNamesFromPlanSummary " + a[0].s + ")", T("Str"), a[0].partial}
		}
	case "strings.HasPrefix":
		a := args()
		if a[0].t.k == "Str" && a[1].t.k == "Str" {
			return ex{"(hasPrefix " + a[0].s + " " + a[1].s + ")", T("Bool"), anyPartial(a)}
		}
	case "strings.TrimLeft":
		a := args()
		if a[0].t.k == "Str" && a[1].t.k == "Str" {
			return ex{"(trimLeftCutset " + a[0].s + " " + a[1].s + ")", T("Str"), anyPartial(a)}
		}
	case "strings.Split":
		// only a single-character literal separator (the model's splitOn)
		if lit, ok := c.Args[1].(*ast.BasicLit); ok && lit.Kind == token.STRING {
			sep, err := strconv.Unquote(lit.Value)
			if err == nil && len(sep) == 1 && sep[0] >= 32 && sep[0] < 127 && sep[0] != '\'' && sep[0] != '\\' {
				a := x.expr(c.Args[0])
				if a.t.k == "Str" {
					return ex{"(splitOn '" + sep + "' " + a.s + ")", T("StrList"), a.partial}
				}
			}
		}
	case "strings.Join":
		a := args()
		if a[0].t.k == "StrList" && a[1].t.k == "Str" {
			return ex{"(intercalate " + a[1].s + " " + a[0].s + ")", T("Str"), anyPartial(a)}
		}
	case "sha256.Sum256":
		a := args()
		if a[0].t.k == "Bytes" {
			return ex{"(sha256 " + a[0].s + ")", T("Bytes"), a[0].partial}
		}
	case "fmt.Sprintf":
		// a format made of literal text, %s (string) and %x (bytes) only
		if lit, ok := c.Args[0].(*ast.BasicLit); ok && lit.Kind == token.STRING {
			f, err := strconv.Unquote(lit.Value)
			if err == nil {
				parts := []string{}
				ai := 1
				cur := ""
				okf := true
				p := false
				for i := 0; i < len(f); i++ {
					if f[i] != '%' {
						cur += string(f[i])
						continue
					}
					if i+1 >= len(f) || ai >= len(c.Args) {
						okf = false
						break
					}
					if cur != "" {
						parts = append(parts, strLean(cur))
						cur = ""
					}
					a := x.expr(c.Args[ai])
					ai++
					i++
					p = p || a.partial
					switch {
					case f[i] == 's' && a.t.k == "Str":
						parts = append(parts, a.s)
					case f[i] == 'x' && a.t.k == "Bytes":
						parts = append(parts, "(hexBytes "+a.s+")")
					default:
						okf = false
					}
				}
				if cur != "" {
					parts = append(parts, strLean(cur))
				}
				if okf && ai == len(c.Args) && len(parts) > 0 {
					return ex{"(" + strings.Join(parts, " ++ ") + ")", T("Str"), p}
				}
			}
		}
		x.bad(c, "fmt.Sprintf with a format outside {literal text, %s of a string, %x of bytes}")
	case "orderedmap.NewOrderedMap":
		return ex{"[]", T("NewMap"), false}
	}
	// methods
	if se, ok := c.Fun.(*ast.SelectorExpr); ok {
		recv := x.expr(se.X)
		a := args()
		switch se.Sel.Name {
		case "IsDir":
			// a method call on a nil FileInfo panics
			if recv.t.k == "FileInfo" && len(a) == 0 {
				return ex{"(← infoIsDir " + recv.s + ")", T("Bool"), true}
			}
		case "MatchString":
			if recv.t.k == "Re" && len(a) == 1 && a[0].t.k == "Str" {
				return ex{"(← reMatch " + recv.s + " " + a[0].s + ")", T("Bool"), true}
			}
		case "Get":
			if len(a) == 1 && a[0].t.k == "Str" {
				switch recv.t.k {
				case "Table":
					return ex{"(tblGet " + recv.s + " " + a[0].s + ")", &ty{k: "Tuple", elems: []*ty{T("Meta"), T("Bool")}}, recv.partial || a[0].partial}
				case "JObj":
					return ex{"(objGet " + recv.s + " " + a[0].s + ")", &ty{k: "Tuple", elems: []*ty{T("J"), T("Bool")}}, recv.partial || a[0].partial}
				}
			}
		}
		x.bad(c, "method "+se.Sel.Name+" on "+recv.t.String())
	}
	x.bad(c, "call of "+name+" is outside the subset")
	return ex{}
}

// comma-ok type assertion: (value, ok)
func (x *tr) assertOk(n ast.Node, ta *ast.TypeAssertExpr) ex {
	a := x.expr(ta.X)
	ts := typeString(ta.Type)
	mk := func(f string, t *ty) ex {
		return ex{"(" + f + " " + a.s + ")", &ty{k: "Tuple", elems: []*ty{t, T("Bool")}}, a.partial}
	}
	switch a.t.k + "." + ts {
	case "J.string":
		return mk("asStr", T("Str"))
	case "J.*orderedmap.OrderedMap[string,any]":
		return mk("asObj", T("JObj"))
	case "J.[]any":
		return mk("asArr", T("JList"))
	case "Meta.*orderedmap.OrderedMap[string,any]":
		return mk("asTable", T("Table"))
	}
	x.bad(n, "assertion "+a.t.String()+".("+ts+")")
	return ex{}
}

// ---------------------------------------------------------------------------------------------
// statements

func (x *tr) reading(name string) string {
	if x.sg.locals != nil {
		return x.sg.locals[name]
	}
	return ""
}

func (x *tr) letKw(name string) string {
	if x.mut[name] {
		return "let mut "
	}
	return "let "
}

func (x *tr) define(ind int, n ast.Node, lhs []ast.Expr, rhs []ast.Expr) {
	names := []string{}
	for _, l := range lhs {
		id, ok := l.(*ast.Ident)
		if !ok {
			x.bad(n, "definition of a non-identifier")
		}
		names = append(names, id.Name)
	}
	if len(lhs) == len(rhs) {
		// evaluate all right-hand sides first (Go semantics), then bind
		vals := []ex{}
		for _, r := range rhs {
			vals = append(vals, x.expr(r))
		}
		for i, nm := range names {
			v := vals[i]
			if v.t.k == "NewMap" {
				rd := x.reading(nm)
				if rd == "" {
					if fi := x.fns[x.cur]; len(fi.results) == 1 && fi.results[0].k == "Table" {
						rd = "Table" // a fresh map in a function that returns an operator table
					}
				}
				if rd == "Table" {
					v = ex{"([] : MTable)", T("Table"), false}
				} else {
					v = ex{"([] : List (Str × J))", T("JObj"), false}
				}
			}
			if v.t.k == "Nil" || v.t.k == "Tuple" {
				x.bad(n, "definition from "+v.t.String())
			}
			ln := x.declare(nm, v.t)
			kw := x.letKw(nm)
			if v.t.k == "JObj" || v.t.k == "JList" {
				kw = "let mut " // a map / slice may be updated through a pointer held elsewhere (write-back)
			}
			x.emit(ind, kw+ln+" : "+v.t.lean()+" := "+v.s)
		}
		return
	}
	if len(rhs) != 1 {
		x.bad(n, "definition shape")
	}
	var v ex
	if ta, ok := rhs[0].(*ast.TypeAssertExpr); ok && len(lhs) == 2 {
		v = x.assertOk(n, ta)
	} else {
		v = x.expr(rhs[0])
	}
	if v.t.k != "Tuple" || len(v.t.elems) != len(lhs) {
		x.bad(n, "multi-value definition from "+v.t.String())
	}
	lns := []string{}
	mut := false
	for i, nm := range names {
		lns = append(lns, x.declare(nm, v.t.elems[i]))
		mut = mut || x.mut[nm]
	}
	// x, ok := m.Get(k) on a document held in a local variable: remember where x was read
	if c, ok := rhs[0].(*ast.CallExpr); ok && len(names) == 2 && names[0] != "_" {
		if se, ok := c.Fun.(*ast.SelectorExpr); ok && se.Sel.Name == "Get" && len(c.Args) == 1 {
			if id, ok := se.X.(*ast.Ident); ok {
				if g, ok := x.lookup(id.Name); ok && g.t.k == "JObj" {
					k := x.expr(c.Args[0])
					if !k.partial {
						x.src[names[0]] = origin{parent: id.Name, key: k.s}
					}
				}
			}
		}
	}
	// m, ok := x.(*OrderedMap) / a, ok := x.([]any) on such a value: the map / slice lives inside the enclosing one
	if ta, ok := rhs[0].(*ast.TypeAssertExpr); ok && len(names) == 2 && names[0] != "_" {
		if id, ok := ta.X.(*ast.Ident); ok {
			if o, ok := x.src[id.Name]; ok && (v.t.elems[0].k == "JObj" || v.t.elems[0].k == "JList") {
				x.prov[names[0]] = o
				mut = true
			}
		}
	}
	for _, e := range v.t.elems {
		if e.k == "JObj" || e.k == "JList" {
			mut = true
		}
	}
	kw := "let "
	if mut {
		kw = "let mut "
	}
	x.emit(ind, kw+"("+strings.Join(lns, ", ")+") := "+v.s)
}

// writeBack: the Go variable `name` (a map or slice that lives inside an enclosing map / slice) has been updated; the enclosing
// values see the update (they hold a pointer to it): rebind them, outwards
func (x *tr) writeBack(ind int, name string) {
	o, ok := x.prov[name]
	if !ok {
		return
	}
	g, _ := x.lookup(name)
	pg, ok := x.lookup(o.parent)
	if !ok {
		return
	}
	wrap := "J.obj"
	if g.t.k == "JList" {
		wrap = "J.arr"
	}
	if o.isIdx {
		x.emit(ind, pg.lean+" := (← setIdx "+pg.lean+" "+o.key+" ("+wrap+" "+g.lean+"))")
	} else {
		x.emit(ind, pg.lean+" := setKV "+o.key+" ("+wrap+" "+g.lean+") "+pg.lean)
	}
	x.writeBack(ind, o.parent)
}

func (x *tr) assign(ind int, s *ast.AssignStmt) {
	if len(s.Lhs) == 2 && len(s.Rhs) == 1 && s.Tok == token.ASSIGN {
		// a, b = f()
		var v ex
		if ta, ok := s.Rhs[0].(*ast.TypeAssertExpr); ok {
			v = x.assertOk(s, ta)
		} else {
			v = x.expr(s.Rhs[0])
		}
		if v.t.k != "Tuple" || len(v.t.elems) != 2 {
			x.bad(s, "two-value assignment from "+v.t.String())
		}
		names := []string{}
		for i, l := range s.Lhs {
			id, ok := l.(*ast.Ident)
			if !ok {
				x.bad(s, "assignment to a non-variable")
			}
			if id.Name == "_" {
				names = append(names, "_")
				continue
			}
			g, ok := x.lookup(id.Name)
			if !ok || !same(g.t, v.t.elems[i]) {
				x.bad(s, "two-value assignment to "+id.Name)
			}
			names = append(names, g.lean)
		}
		x.emit(ind, "("+strings.Join(names, ", ")+") := "+v.s)
		return
	}
	if len(s.Lhs) != 1 || len(s.Rhs) != 1 {
		x.bad(s, "multi-assignment")
	}
	if ie, ok := s.Lhs[0].(*ast.IndexExpr); ok && s.Tok == token.ASSIGN {
		// xs[i] = e on a local slice: the variable is rebound
		id, ok := ie.X.(*ast.Ident)
		if !ok {
			x.bad(s, "element store into a non-variable")
		}
		if _, local := x.lookup(id.Name); !local && id.Name == "RedactedFieldMapping" {
			// the package-level side table: nothing in the program reads it (regenerated fact Facts_mapping_write_only), so the
			// store has no effect on any result; its operands are still evaluated
			k := x.expr(ie.Index)
			v := x.expr(s.Rhs[0])
			if k.partial || v.partial {
				x.emit(ind, "let _ := ("+k.s+", "+v.s+")")
			}
			return
		}
		g, ok := x.lookup(id.Name)
		if !ok || (g.t.k != "JList" && g.t.k != "StrList") {
			x.bad(s, "element store into "+id.Name)
		}
		et := T("J")
		if g.t.k == "StrList" {
			et = T("Str")
		}
		i := x.expr(ie.Index)
		if i.t.k != "Int" {
			x.bad(s, "index type")
		}
		v := x.coerce(s, x.expr(s.Rhs[0]), et)
		x.emit(ind, g.lean+" := (← setIdx "+g.lean+" "+i.s+" "+v.s+")")
		return
	}
	id, ok := s.Lhs[0].(*ast.Ident)
	if !ok {
		x.bad(s, "assignment to a non-variable (field stores are outside the subset)")
	}
	g, ok := x.lookup(id.Name)
	if !ok {
		x.bad(s, "assignment to "+id.Name+", which is not a local variable")
	}
	v := x.expr(s.Rhs[0])
	switch s.Tok {
	case token.ASSIGN:
		v = x.coerce(s, v, g.t)
		x.emit(ind, g.lean+" := "+v.s)
	case token.ADD_ASSIGN:
		if g.t.k == "Int" && v.t.k == "Int" {
			x.emit(ind, g.lean+" := "+g.lean+" + "+v.s)
		} else if g.t.k == "Str" && v.t.k == "Str" {
			x.emit(ind, g.lean+" := "+g.lean+" ++ "+v.s)
		} else {
			x.bad(s, "+= on "+g.t.String())
		}
	default:
		x.bad(s, "assignment operator "+s.Tok.String())
	}
}

func (x *tr) ret(ind int, r *ast.ReturnStmt) {
	fi := x.fns[x.cur]
	if fi.proc {
		if len(r.Results) != 0 {
			x.bad(r, "result in a procedure")
		}
		g, _ := x.lookup(fi.pnames[0])
		x.emit(ind, "return "+g.lean)
		return
	}
	if len(r.Results) == 1 && len(fi.results) > 1 {
		v := x.expr(r.Results[0])
		if v.t.k != "Tuple" || len(v.t.elems) != len(fi.results) {
			x.bad(r, "return of "+v.t.String())
		}
		for i := range fi.results {
			if !same(v.t.elems[i], fi.results[i]) {
				x.bad(r, "returned tuple type")
			}
		}
		x.emit(ind, "return "+v.s)
		return
	}
	if len(r.Results) != len(fi.results) {
		x.bad(r, "result count")
	}
	parts := []string{}
	for i, e := range r.Results {
		v := x.coerce(e, x.expr(e), fi.results[i])
		parts = append(parts, v.s)
	}
	if len(parts) == 1 {
		x.emit(ind, "return "+parts[0])
	} else {
		x.emit(ind, "return ("+strings.Join(parts, ", ")+")")
	}
}

func (x *tr) block(ind int, stmts []ast.Stmt) {
	x.push()
	n := len(x.out)
	for _, s := range stmts {
		x.stmt(ind, s)
	}
	if len(x.out) == n {
		x.emit(ind, "pure ()")
	}
	x.pop()
}

func (x *tr) ifStmt(ind int, s *ast.IfStmt) {
	x.push()
	if s.Init != nil {
		x.stmt(ind, s.Init)
	}
	c := x.expr(s.Cond)
	if c.t.k != "Bool" && c.t.k != "Err" {
		x.bad(s.Cond, "condition of type "+c.t.String())
	}
	x.emit(ind, "if "+c.s+" then")
	x.block(ind+1, s.Body.List)
	switch e := s.Else.(type) {
	case nil:
	case *ast.BlockStmt:
		x.emit(ind, "else")
		x.block(ind+1, e.List)
	case *ast.IfStmt:
		// always nested: a nested action in the condition of an `else if` would otherwise be lifted in front of the whole statement
		x.emit(ind, "else")
		x.ifStmt(ind+1, e)
	default:
		x.bad(s, "else form")
	}
	x.pop()
}

var jPat = map[string]string{"string": ".str", "json.Number": ".num", "bool": ".bool", "nil": ".null", "[]any": ".arr", "*orderedmap.OrderedMap[string,any]": ".obj"}
var jPatTy = map[string]string{"string": "Str", "json.Number": "Str", "bool": "Bool", "[]any": "JList", "*orderedmap.OrderedMap[string,any]": "JObj"}
var noValueOfThisType = map[string]bool{"float64": true, "int": true, "int64": true, "int32": true, "float32": true} // the decoder produces json.Number only

func (x *tr) typeSwitch(ind int, s *ast.TypeSwitchStmt) {
	if s.Init != nil {
		x.bad(s, "type switch with init")
	}
	bind := ""
	var ta *ast.TypeAssertExpr
	switch a := s.Assign.(type) {
	case *ast.AssignStmt:
		bind = a.Lhs[0].(*ast.Ident).Name
		ta = a.Rhs[0].(*ast.TypeAssertExpr)
	case *ast.ExprStmt:
		ta = a.X.(*ast.TypeAssertExpr)
	}
	v := x.expr(ta.X)
	if v.t.k != "J" {
		x.bad(s, "type switch on "+v.t.String())
	}
	x.emit(ind, "match "+v.s+" with")
	covered := map[string]bool{}
	hasDefault := false
	var deflt *ast.CaseClause
	for _, cc0 := range s.Body.List {
		cc := cc0.(*ast.CaseClause)
		if cc.List == nil {
			deflt = cc
			hasDefault = true
			continue
		}
		pats := []string{}
		for _, t := range cc.List {
			ts := typeString(t)
			if noValueOfThisType[ts] {
				continue
			}
			p, ok := jPat[ts]
			if !ok {
				x.bad(t, "case "+ts)
			}
			if covered[p] {
				x.bad(t, "duplicate case")
			}
			covered[p] = true
			pats = append(pats, ts)
		}
		if len(pats) == 0 {
			continue // no JSON value has any of these types
		}
		x.push()
		if len(pats) == 1 {
			ts := pats[0]
			if ts == "nil" {
				x.emit(ind, "| .null =>")
				if bind != "" {
					ln := x.declare(bind, T("J"))
					x.emit(ind+1, "let "+ln+" : J := J.null")
				}
			} else if bind != "" {
				ln := x.declare(bind, T(jPatTy[ts]))
				x.emit(ind, "| "+jPat[ts]+" "+ln+" =>")
			} else {
				x.emit(ind, "| "+jPat[ts]+" _ =>")
			}
		} else {
			alts := []string{}
			for _, ts := range pats {
				if ts == "nil" {
					alts = append(alts, ".null")
				} else {
					alts = append(alts, jPat[ts]+" _")
				}
			}
			x.emit(ind, "| "+strings.Join(alts, " | ")+" =>")
			if bind != "" {
				ln := x.declare(bind, T("J"))
				x.emit(ind+1, "let "+ln+" : J := "+v.s)
			}
		}
		x.block(ind+1, cc.Body)
		x.pop()
	}
	if len(covered) < 6 {
		x.emit(ind, "| _ =>")
		x.push()
		if hasDefault {
			if bind != "" {
				ln := x.declare(bind, T("J"))
				x.emit(ind+1, "let "+ln+" : J := "+v.s)
			}
			x.block(ind+1, deflt.Body)
		} else {
			x.emit(ind+1, "pure ()")
		}
		x.pop()
	}
}

func (x *tr) valueSwitch(ind int, s *ast.SwitchStmt) {
	x.push()
	if s.Init != nil {
		x.stmt(ind, s.Init)
	}
	if s.Tag == nil {
		x.bad(s, "tag-less switch")
	}
	tag := x.expr(s.Tag)
	if tag.partial {
		x.bad(s, "switch tag with a partial expression")
	}
	first := true
	var deflt *ast.CaseClause
	depth := ind
	for _, cc0 := range s.Body.List {
		cc := cc0.(*ast.CaseClause)
		for _, st := range cc.Body {
			if b, ok := st.(*ast.BranchStmt); ok && (b.Tok == token.BREAK || b.Tok == token.FALLTHROUGH) {
				x.bad(b, b.Tok.String()+" in a switch case")
			}
		}
		if cc.List == nil {
			deflt = cc
			continue
		}
		conds := []string{}
		for _, e := range cc.List {
			v := x.expr(e)
			if !same(v.t, tag.t) || v.partial {
				x.bad(e, "case value")
			}
			conds = append(conds, "("+tag.s+" == "+v.s+")")
		}
		kw := "if "
		if !first {
			kw = "else if "
		}
		first = false
		x.emit(depth, kw+strings.Join(conds, " || ")+" then")
		x.block(depth+1, cc.Body)
	}
	if deflt != nil {
		if first {
			x.block(depth, deflt.Body)
		} else {
			x.emit(depth, "else")
			x.block(depth+1, deflt.Body)
		}
	}
	x.pop()
}

func containsBreakOfSwitch(n ast.Node) bool { return false }

func (x *tr) rangeStmt(ind int, s *ast.RangeStmt) {
	if s.Tok != token.DEFINE {
		x.bad(s, "range with assignment")
	}
	coll := x.expr(s.X)
	var et *ty
	switch coll.t.k {
	case "StrList", "PtrStrList":
		et = T("Str")
	case "JList":
		et = T("J")
	default:
		x.bad(s, "range over "+coll.t.String())
	}
	x.push()
	key, _ := s.Key.(*ast.Ident)
	var val *ast.Ident
	if s.Value != nil {
		val, _ = s.Value.(*ast.Ident)
	}
	useIdx := key != nil && key.Name != "_"
	vn := "_"
	if val != nil {
		vn = x.declare(val.Name, et)
	}
	// a loop over a slice that lives inside a document, whose body updates maps asserted out of the elements: the elements need an
	// index to be written back to
	if !useIdx && val != nil && coll.t.k == "JList" {
		if cid, ok := s.X.(*ast.Ident); ok {
			if _, lives := x.prov[cid.Name]; lives && bodyUpdates(s.Body) {
				in := vn + "_i"
				x.emit(ind, "for ("+vn+", "+in+"_n) in ("+coll.s+").zipIdx do")
				x.emit(ind+1, "let "+in+" : Int := "+in+"_n")
				x.src[val.Name] = origin{parent: cid.Name, key: in, isIdx: true}
				x.inLoop++
				x.block(ind+1, s.Body.List)
				x.inLoop--
				x.pop()
				return
			}
		}
	}
	if useIdx {
		in := x.declare(key.Name, T("Int"))
		x.emit(ind, "for ("+vn+", "+in+"_n) in ("+coll.s+").zipIdx do")
		x.emit(ind+1, "let "+in+" : Int := "+in+"_n")
	} else {
		x.emit(ind, "for "+vn+" in "+coll.s+" do")
	}
	x.inLoop++
	x.block(ind+1, s.Body.List)
	x.inLoop--
	x.pop()
}

// assignedFromTable: is `name` somewhere assigned the first result of `<operator table>.Get(…)`?
func assignedFromTable(fd *ast.FuncDecl, name string) bool {
	r := false
	ast.Inspect(fd.Body, func(n ast.Node) bool {
		as, ok := n.(*ast.AssignStmt)
		if !ok || len(as.Lhs) == 0 || len(as.Rhs) != 1 {
			return true
		}
		id, ok := as.Lhs[0].(*ast.Ident)
		if !ok || id.Name != name {
			return true
		}
		if c, ok := as.Rhs[0].(*ast.CallExpr); ok {
			if se, ok := c.Fun.(*ast.SelectorExpr); ok && se.Sel.Name == "Get" {
				if rid, ok := se.X.(*ast.Ident); ok {
					if g, ok := globals[rid.Name]; ok && g.t.k == "Table" {
						r = true
					}
				}
			}
		}
		return true
	})
	return r
}

// bodyUpdates: does the block call a procedure or Set on something (so that aliasing matters)?
func bodyUpdates(b *ast.BlockStmt) bool {
	r := false
	ast.Inspect(b, func(n ast.Node) bool {
		if es, ok := n.(*ast.ExprStmt); ok {
			if c, ok := es.X.(*ast.CallExpr); ok {
				switch f := c.Fun.(type) {
				case *ast.Ident:
					if _, ok := sigs[f.Name]; ok {
						r = true
					}
				case *ast.SelectorExpr:
					if f.Sel.Name == "Set" {
						r = true
					}
				}
			}
		}
		return true
	})
	return r
}

func (x *tr) forStmt(ind int, s *ast.ForStmt) {
	// ordered-map iteration: for el := m.Front(); el != nil; el = el.Next()
	if as, ok := s.Init.(*ast.AssignStmt); ok && as.Tok == token.DEFINE && len(as.Lhs) == 1 && len(as.Rhs) == 1 {
		el := as.Lhs[0].(*ast.Ident).Name
		if c, ok := as.Rhs[0].(*ast.CallExpr); ok {
			if se, ok := c.Fun.(*ast.SelectorExpr); ok && se.Sel.Name == "Front" && len(c.Args) == 0 {
				// check the shape of cond and post
				okc := false
				if be, ok := s.Cond.(*ast.BinaryExpr); ok && be.Op == token.NEQ {
					if id, ok := be.X.(*ast.Ident); ok && id.Name == el {
						if n, ok := be.Y.(*ast.Ident); ok && n.Name == "nil" {
							okc = true
						}
					}
				}
				okp := false
				if ps, ok := s.Post.(*ast.AssignStmt); ok && ps.Tok == token.ASSIGN && len(ps.Lhs) == 1 {
					if id, ok := ps.Lhs[0].(*ast.Ident); ok && id.Name == el {
						if pc, ok := ps.Rhs[0].(*ast.CallExpr); ok {
							if pse, ok := pc.Fun.(*ast.SelectorExpr); ok && pse.Sel.Name == "Next" {
								if id2, ok := pse.X.(*ast.Ident); ok && id2.Name == el {
									okp = true
								}
							}
						}
					}
				}
				if !okc || !okp {
					x.bad(s, "map iteration of an unexpected shape")
				}
				m := x.expr(se.X)
				var vt *ty
				switch m.t.k {
				case "Table":
					vt = T("Meta")
				case "JObj":
					vt = T("J")
				default:
					x.bad(s, "Front() on "+m.t.String())
				}
				x.push()
				ln := x.declare(el, &ty{k: "Entry", elems: []*ty{vt}})
				x.emit(ind, "for "+ln+" in "+m.s+" do")
				x.inLoop++
				x.block(ind+1, s.Body.List)
				x.inLoop--
				x.pop()
				return
			}
		}
		// counting loop: for i := a; i + k < E; i++
		if lit, ok := as.Rhs[0].(*ast.BasicLit); ok && lit.Kind == token.INT {
			inc, ok := s.Post.(*ast.IncDecStmt)
			if !ok || inc.Tok != token.INC {
				x.bad(s, "loop post statement")
			}
			if id, ok := inc.X.(*ast.Ident); !ok || id.Name != el {
				x.bad(s, "loop post statement")
			}
			be, ok := s.Cond.(*ast.BinaryExpr)
			if !ok || be.Op != token.LSS {
				x.bad(s, "loop condition is not of the form i + k < bound")
			}
			mentions := false
			ast.Inspect(be.Y, func(n ast.Node) bool {
				if id, ok := n.(*ast.Ident); ok && id.Name == el {
					mentions = true
				}
				return true
			})
			if mentions {
				x.bad(s, "loop bound mentions the counter")
			}
			okL := false
			switch l := be.X.(type) {
			case *ast.Ident:
				okL = l.Name == el
			case *ast.BinaryExpr:
				if id, ok := l.X.(*ast.Ident); ok && id.Name == el && l.Op == token.ADD {
					if k, ok := l.Y.(*ast.BasicLit); ok && k.Kind == token.INT {
						okL = true
					}
				}
			}
			if !okL {
				x.bad(s, "loop condition is not of the form i + k < bound")
			}
			// the body must not assign the counter
			ast.Inspect(s.Body, func(n ast.Node) bool {
				if a, ok := n.(*ast.AssignStmt); ok {
					for _, l := range a.Lhs {
						if id, ok := l.(*ast.Ident); ok && id.Name == el {
							x.bad(a, "loop counter assigned in the body")
						}
					}
				}
				if a, ok := n.(*ast.IncDecStmt); ok {
					if id, ok := a.X.(*ast.Ident); ok && id.Name == el {
						x.bad(a, "loop counter changed in the body")
					}
				}
				return true
			})
			// `for i := 0; i < len(xs); i++` over a string slice that the body never assigns IS `for i, v := range xs` with `xs[i]` for v
			// (len(xs) is invariant, every xs[i] is in range): emitted in that form, so that the two spellings translate alike
			if xsId := indexLoopOver(s, el, lit, be); xsId != nil {
				if coll := x.expr(xsId); coll.t.k == "StrList" && !coll.partial && !assignsTo(s.Body, xsId.Name) {
					x.push()
					vn := x.declare(xsId.Name+"_"+el, T("Str"))
					in := x.declare(el, T("Int"))
					if x.elemAlias == nil {
						x.elemAlias = map[string]string{}
					}
					key := xsId.Name + "[" + el + "]"
					x.elemAlias[key] = vn
					x.emit(ind, "for ("+vn+", "+in+"_n) in ("+coll.s+").zipIdx do")
					x.emit(ind+1, "let "+in+" : Int := "+in+"_n")
					x.inLoop++
					x.block(ind+1, s.Body.List)
					x.inLoop--
					delete(x.elemAlias, key)
					x.pop()
					return
				}
			}
			x.push()
			bound := x.expr(be.Y)
			if bound.partial || bound.t.k != "Int" {
				x.bad(s, "loop bound")
			}
			ln := x.declare(el, T("Int"))
			x.emit(ind, "for "+ln+"_n in List.range' "+lit.Value+" (("+bound.s+").toNat - "+lit.Value+") do")
			x.emit(ind+1, "let "+ln+" : Int := "+ln+"_n")
			c := x.expr(s.Cond)
			x.emit(ind+1, "if !"+c.s+" then break")
			x.inLoop++
			x.block(ind+1, s.Body.List)
			x.inLoop--
			x.pop()
			return
		}
	}
	x.bad(s, "for loop of an unsupported shape")
}

// mergeNestedIfs: `if A { if B { S } }` (no else on either, the inner `if` the only statement of the outer body and without an init
// statement) is `if A && B { S }` (Go's && evaluates B only when A holds): rewritten to that form before translation, so that the two
// spellings translate alike
func mergeNestedIfs(b *ast.BlockStmt) {
	ast.Inspect(b, func(n ast.Node) bool {
		outer, ok := n.(*ast.IfStmt)
		if !ok {
			return true
		}
		for outer.Else == nil && len(outer.Body.List) == 1 {
			inner, ok := outer.Body.List[0].(*ast.IfStmt)
			if !ok || inner.Else != nil || inner.Init != nil {
				break
			}
			outer.Cond = &ast.BinaryExpr{X: &ast.ParenExpr{X: outer.Cond}, Op: token.LAND, Y: &ast.ParenExpr{X: inner.Cond}, OpPos: inner.Pos()}
			outer.Body = inner.Body
		}
		// one association for a chain of &&: ((c1 && c2) && c3) && …  (&& is associative, evaluation order is left to right either way)
		if cs := conjuncts(outer.Cond); len(cs) > 2 {
			c := cs[0]
			for _, d := range cs[1:] {
				c = &ast.BinaryExpr{X: c, Op: token.LAND, Y: d, OpPos: d.Pos()}
			}
			outer.Cond = c
		}
		return true
	})
}

func conjuncts(e ast.Expr) []ast.Expr {
	for {
		p, ok := e.(*ast.ParenExpr)
		if !ok {
			break
		}
		e = p.X
	}
	if b, ok := e.(*ast.BinaryExpr); ok && b.Op == token.LAND {
		return append(conjuncts(b.X), conjuncts(b.Y)...)
	}
	return []ast.Expr{e}
}

// indexLoopOver: is the loop `for i := 0; i < len(xs); i++` for an identifier xs?  (the caller has checked init literal, post and `<`)
func indexLoopOver(s *ast.ForStmt, el string, lit *ast.BasicLit, be *ast.BinaryExpr) *ast.Ident {
	if lit.Value != "0" {
		return nil
	}
	if id, ok := be.X.(*ast.Ident); !ok || id.Name != el {
		return nil
	}
	c, ok := be.Y.(*ast.CallExpr)
	if !ok || len(c.Args) != 1 {
		return nil
	}
	if f, ok := c.Fun.(*ast.Ident); !ok || f.Name != "len" {
		return nil
	}
	id, _ := c.Args[0].(*ast.Ident)
	return id
}

// assignsTo: does the block assign `name`, an element of it, take its address, or declare a variable of that name?
func assignsTo(b *ast.BlockStmt, name string) bool {
	r := false
	isName := func(e ast.Expr) bool {
		for {
			switch v := e.(type) {
			case *ast.Ident:
				return v.Name == name
			case *ast.IndexExpr:
				e = v.X
			case *ast.SliceExpr:
				e = v.X
			case *ast.ParenExpr:
				e = v.X
			default:
				return false
			}
		}
	}
	ast.Inspect(b, func(n ast.Node) bool {
		switch v := n.(type) {
		case *ast.AssignStmt:
			for _, l := range v.Lhs {
				if isName(l) {
					r = true
				}
			}
		case *ast.IncDecStmt:
			if isName(v.X) {
				r = true
			}
		case *ast.UnaryExpr:
			if v.Op == token.AND && isName(v.X) {
				r = true
			}
		case *ast.ValueSpec:
			for _, nm := range v.Names {
				if nm.Name == name {
					r = true
				}
			}
		case *ast.RangeStmt:
			if (v.Key != nil && isName(v.Key)) || (v.Value != nil && isName(v.Value)) {
				r = true
			}
		}
		return true
	})
	return r
}

func (x *tr) stmt(ind int, st ast.Stmt) {
	switch s := st.(type) {
	case *ast.AssignStmt:
		if s.Tok == token.DEFINE {
			x.define(ind, s, s.Lhs, s.Rhs)
		} else {
			x.assign(ind, s)
		}
	case *ast.DeclStmt:
		gd, ok := s.Decl.(*ast.GenDecl)
		if !ok || gd.Tok != token.VAR {
			x.bad(s, "declaration")
		}
		for _, sp := range gd.Specs {
			vs := sp.(*ast.ValueSpec)
			for i, nm := range vs.Names {
				var t *ty
				if vs.Type != nil {
					rd := x.reading(nm.Name)
					if rd == "" && typeString(vs.Type) == "any" && assignedFromTable(x.fns[x.cur].decl, nm.Name) {
						rd = "Meta" // an interface{} that receives the result of a lookup in an operator table holds table entries
					}
					t = x.goType(vs.Type, rd)
				}
				var v ex
				if i < len(vs.Values) {
					v = x.expr(vs.Values[i])
					if t != nil && t.k == "J" && (v.t.k == "Table" || v.t.k == "Meta") && x.reading(nm.Name) == "" {
						t = T("Meta") // an interface{} initialised with an operator table / table entry holds table entries
					}
					if t != nil {
						v = x.coerce(vs, v, t)
					}
				} else {
					if t == nil {
						x.bad(s, "var without type or value")
					}
					switch t.k {
					case "Str":
						v = ex{"([] : Str)", t, false}
					case "Bool":
						v = ex{"false", t, false}
					case "Int":
						v = ex{"(0 : Int)", t, false}
					case "StrList":
						v = ex{"([] : List Str)", t, false}
					case "Meta":
						v = ex{"Meta.nil", t, false}
					case "J":
						v = ex{"J.null", t, false}
					default:
						x.bad(s, "zero value of "+t.String())
					}
				}
				ln := x.declare(nm.Name, v.t)
				x.emit(ind, x.letKw(nm.Name)+ln+" : "+v.t.lean()+" := "+v.s)
			}
		}
	case *ast.IfStmt:
		x.ifStmt(ind, s)
	case *ast.ReturnStmt:
		x.ret(ind, s)
	case *ast.RangeStmt:
		x.rangeStmt(ind, s)
	case *ast.ForStmt:
		x.forStmt(ind, s)
	case *ast.SwitchStmt:
		x.valueSwitch(ind, s)
	case *ast.TypeSwitchStmt:
		x.typeSwitch(ind, s)
	case *ast.BranchStmt:
		if s.Label != nil || x.inLoop == 0 {
			x.bad(s, "branch statement")
		}
		switch s.Tok {
		case token.BREAK:
			x.emit(ind, "break")
		case token.CONTINUE:
			x.emit(ind, "continue")
		default:
			x.bad(s, s.Tok.String())
		}
	case *ast.BlockStmt:
		x.block(ind, s.List)
	case *ast.ExprStmt:
		// m.Set(k, v) on a local map
		if c, ok := s.X.(*ast.CallExpr); ok {
			if se, ok := c.Fun.(*ast.SelectorExpr); ok && se.Sel.Name == "Set" && len(c.Args) == 2 {
				if id, ok := se.X.(*ast.Ident); ok {
					if g, ok := x.lookup(id.Name); ok && (g.t.k == "Table" || g.t.k == "JObj") {
						k := x.expr(c.Args[0])
						v := x.expr(c.Args[1])
						vt := T("Meta")
						if g.t.k == "JObj" {
							vt = T("J")
						}
						v = x.coerce(c, v, vt)
						if k.t.k != "Str" {
							x.bad(c, "key type")
						}
						if !x.mut[id.Name] {
							if _, lives := x.prov[id.Name]; !lives {
								x.bad(c, "Set on a variable the pre-scan did not see as mutable")
							}
						}
						x.emit(ind, g.lean+" := setKV "+k.s+" "+v.s+" "+g.lean)
						x.writeBack(ind, id.Name)
						return
					}
				}
			}
		}
		// f(m, …) for a procedure f of the translated set: m is rebound to the updated map (and written back where it lives)
		if c, ok := s.X.(*ast.CallExpr); ok {
			if fid, ok := c.Fun.(*ast.Ident); ok {
				if fi, ok := x.fns[fid.Name]; ok && fi.proc && len(c.Args) == len(fi.params) {
					if id, ok := c.Args[0].(*ast.Ident); ok {
						if g, ok := x.lookup(id.Name); ok && g.t.k == "JObj" {
							_, lives := x.prov[id.Name]
							if !x.mut[id.Name] && !lives {
								x.bad(c, "procedure call on a variable that is not known to be updatable")
							}
							r := x.call(c)
							x.emit(ind, g.lean+" := "+r.s)
							x.writeBack(ind, id.Name)
							return
						}
					}
				}
			}
		}
		x.bad(s, "expression statement")
	default:
		x.bad(st, fmt.Sprintf("statement %T", st))
	}
}

var declOrder = map[string]int{}
var declCounter = 0

// leanOf2: the Lean name / type of a Go variable as recorded when the piece was created (scopes may have been popped since)
var cpsMemo = map[string]gname{}

func leanOf2(x *tr, n string, _ []string) gname {
	if g, ok := x.lookup(n); ok {
		cpsMemo[x.cur+"/"+n] = g
		return g
	}
	return cpsMemo[x.cur+"/"+n]
}

func nextCallOr(s string) string {
	if s == "" {
		return "none"
	}
	return s
}

// outlineOK: every top-level statement of the procedure is an `if` (with or without init) or a `for`, so that no local variable
// is shared between statements and an early `return` can only be the nil guard on the map itself
func outlineOK(fi *fnInfo) bool {
	for _, st := range fi.decl.Body.List {
		switch s := st.(type) {
		case *ast.IfStmt:
			bad := false
			ast.Inspect(s, func(n ast.Node) bool {
				if _, ok := n.(*ast.ReturnStmt); ok {
					// only `if cmd == nil { return }` may return
					if be, ok := s.Cond.(*ast.BinaryExpr); !ok || be.Op != token.EQL {
						bad = true
					} else if id, ok := be.Y.(*ast.Ident); !ok || id.Name != "nil" {
						bad = true
					}
				}
				return true
			})
			if bad {
				return false
			}
		case *ast.RangeStmt, *ast.ForStmt:
		case *ast.ExprStmt:
			if c, ok := s.X.(*ast.CallExpr); !ok {
				return false
			} else if fid, ok := c.Fun.(*ast.Ident); !ok {
				return false
			} else if _, ok := sigs[fid.Name]; !ok {
				return false
			}
		default:
			return false
		}
	}
	return true
}

// variables that are assigned after their definition (→ `let mut`)
func mutated(fd *ast.FuncDecl) map[string]bool {
	m := map[string]bool{}
	ast.Inspect(fd.Body, func(n ast.Node) bool {
		switch s := n.(type) {
		case *ast.AssignStmt:
			if s.Tok != token.DEFINE {
				for _, l := range s.Lhs {
					if id, ok := l.(*ast.Ident); ok {
						m[id.Name] = true
					}
					if ie, ok := l.(*ast.IndexExpr); ok {
						if id, ok := ie.X.(*ast.Ident); ok {
							m[id.Name] = true
						}
					}
				}
			}
		case *ast.IncDecStmt:
			if id, ok := s.X.(*ast.Ident); ok {
				m[id.Name] = true
			}
		case *ast.ExprStmt:
			if c, ok := s.X.(*ast.CallExpr); ok {
				if se, ok := c.Fun.(*ast.SelectorExpr); ok && se.Sel.Name == "Set" {
					if id, ok := se.X.(*ast.Ident); ok {
						m[id.Name] = true
					}
				}
				if fid, ok := c.Fun.(*ast.Ident); ok && len(c.Args) > 0 {
					if _, ok := sigs[fid.Name]; ok {
						if id, ok := c.Args[0].(*ast.Ident); ok {
							m[id.Name] = true
						}
					}
				}
			}
		}
		return true
	})
	return m
}

func callsOf(fd *ast.FuncDecl, names map[string]bool) map[string]bool {
	r := map[string]bool{}
	ast.Inspect(fd.Body, func(n ast.Node) bool {
		if c, ok := n.(*ast.CallExpr); ok {
			if id, ok := c.Fun.(*ast.Ident); ok && names[id.Name] {
				r[id.Name] = true
			}
		}
		return true
	})
	return r
}

func (x *tr) function(name string) (text string, err string) {
	defer func() {
		if r := recover(); r != nil {
			if u, ok := r.(unsupported); ok {
				err = u.msg
				return
			}
			panic(r)
		}
	}()
	fi := x.fns[name]
	mergeNestedIfs(fi.decl.Body)
	x.cur = name
	x.sg = sigs[name]
	x.scopes = nil
	x.used = map[string]int{}
	x.mut = mutated(fi.decl)
	if fi.proc {
		x.mut[fi.pnames[0]] = true
	}
	x.out = nil
	x.inLoop = 0
	x.src = map[string]origin{}
	x.prov = map[string]origin{}
	x.push()
	hdr := []string{}
	pats := []string{}
	for i, p := range fi.pnames {
		ln := x.declare(p, fi.params[i])
		hdr = append(hdr, "("+ln+" : "+fi.params[i].lean()+")")
		pats = append(pats, ln)
	}
	var rt string
	if len(fi.results) == 1 {
		rt = fi.results[0].lean()
	} else {
		rt = (&ty{k: "Tuple", elems: fi.results}).lean()
	}
	ind := 1
	var L []string
	p := x.fset.Position(fi.decl.Pos())
	L = append(L, fmt.Sprintf("/-- `%s` (%s) -/", name, filepath.Base(p.Filename)))
	if fi.rec {
		tys := []string{}
		for _, p := range fi.params {
			tys = append(tys, p.lean())
		}
		L = append(L, "def "+name+" (g : Globals) (T : Tables) : Nat → "+strings.Join(tys, " → ")+" → Option "+rt)
		under := make([]string, len(pats))
		for i := range under {
			under[i] = "_"
		}
		L = append(L, "  | 0, "+strings.Join(under, ", ")+" => none")
		L = append(L, "  | fuel + 1, "+strings.Join(pats, ", ")+" => do")
		ind = 2
	} else {
		f := ""
		if fi.fuel {
			f = " (fuel : Nat)"
		}
		L = append(L, "def "+name+" (g : Globals) (T : Tables)"+f+" "+strings.Join(hdr, " ")+" : Option "+rt+" := do")
	}
	for _, p := range fi.pnames {
		if x.mut[p] {
			g, _ := x.lookup(p)
			x.emit(ind, "let mut "+g.lean+" := "+g.lean)
		}
	}
	if cpsFuncs[name] && !fi.rec {
		f := ""
		fa := ""
		if fi.fuel {
			f = " (fuel : Nat)"
			fa = " fuel"
		}
		defs := []string{}
		x.out = nil
		// scopeVars: the Go variables in scope, in declaration order (parameters first)
		scopeVars := func() []string {
			seen := map[string]bool{}
			r := []string{}
			for _, p := range fi.pnames {
				if !seen[p] {
					seen[p] = true
					r = append(r, p)
				}
			}
			type nv struct {
				n string
				o int
			}
			for _, sc := range x.scopes {
				names := []nv{}
				for n, g := range sc {
					if !seen[n] && g.lean != "_" {
						names = append(names, nv{n, declOrder[g.lean]})
					}
				}
				sort.Slice(names, func(i, j int) bool { return names[i].o < names[j].o })
				for _, e := range names {
					seen[e.n] = true
					r = append(r, e.n)
				}
			}
			return r
		}
		leanOf := func(n string) gname { g, _ := x.lookup(n); return g }
		callOf := func(fn string, vars []string) string {
			args := []string{}
			for _, gn := range vars {
				args = append(args, leanOf(gn).lean)
			}
			return fmt.Sprintf("%s g T%s %s", fn, fa, strings.Join(args, " "))
		}
		// cpsBlock: one definition per statement of `stmts` (named prefix_k<i>), the last one ending in `next` ("" = nothing follows);
		// returns the call that enters the block
		var cpsBlock func(stmts []ast.Stmt, prefix string, next string) (string, []string)
		cpsBlock = func(stmts []ast.Stmt, prefix string, next string) (string, []string) {
			nestedDefs := make([][]string, len(stmts))
			type piece struct {
				params []string
				text   string
			}
			pieces := make([]piece, len(stmts))
			calls := make([]string, len(stmts)+1)
			// parameters of each piece = scope before the statement; the scope grows as the statements are translated in order,
			// so the texts are produced in order but each refers to the NEXT one by name only
			for i, st := range stmts {
				vars := scopeVars()
				pieces[i].params = vars
				calls[i] = callOf(fmt.Sprintf("%s_k%d", prefix, i+1), vars)
				_ = st
				// translate
				x.out = nil
				nested := ""
				if is, ok := st.(*ast.IfStmt); ok && is.Init == nil && is.Else == nil && len(is.Body.List) > 2 {
					// a long `if` without else: its body in continuation style too, falling through to what follows the `if`
					after := "__AFTER__"
					c := x.expr(is.Cond)
					x.push()
					enter, nd := cpsBlock(is.Body.List, fmt.Sprintf("%s_k%d", prefix, i+1), after)
					nestedDefs[i] = nd
					x.pop()
					nested = "  if " + c.s + " then\n    " + enter + "\n  else\n    " + after
				} else {
					x.stmt(1, st)
					nested = strings.Join(x.out, "\n")
				}
				pieces[i].text = nested
			}
			calls[len(stmts)] = next
			own := make([]string, len(stmts))
			for i := range stmts {
				ph := []string{}
				var b strings.Builder
				for _, gn := range pieces[i].params {
					g := leanOf2(x, gn, pieces[i].params)
					ph = append(ph, "("+g.lean+" : "+g.t.lean()+")")
				}
				fmt.Fprintf(&b, "/-- `%s`, continuation %s_k%d -/\ndef %s_k%d (g : Globals) (T : Tables)%s %s : Option %s := do\n", name, prefix, i+1, prefix, i+1, f, strings.Join(ph, " "), rt)
				for _, gn := range pieces[i].params {
					g := leanOf2(x, gn, pieces[i].params)
					fmt.Fprintf(&b, "  let mut %s := %s\n", g.lean, g.lean)
				}
				nextCall := calls[i+1]
				if i+1 < len(stmts) {
					nextCall = calls[i+1]
				}
				body := strings.ReplaceAll(pieces[i].text, "__AFTER__", nextCallOr(nextCall))
				b.WriteString(body + "\n")
				if !strings.Contains(pieces[i].text, "__AFTER__") && nextCall != "" {
					b.WriteString("  " + nextCall + "\n")
				}
				own[i] = b.String()
			}
			// callee first: the last statement, then the one before it (its nested block first), …
			ordered := []string{}
			for i := len(stmts) - 1; i >= 0; i-- {
				for _, d := range nestedDefs[i] {
					ordered = append(ordered, strings.ReplaceAll(d, "__AFTER__", nextCallOr(calls[i+1])))
				}
				ordered = append(ordered, own[i])
			}
			return calls[0], ordered
		}
		x.push()
		// the definitions must appear callee-first: collect, then emit in reverse order of creation
		enter, ordered := cpsBlock(fi.decl.Body.List, name, "")
		defs = ordered
		x.pop()
		Lm := append([]string{}, L...)
		Lm[len(Lm)-1] = strings.TrimSuffix(Lm[len(Lm)-1], " do")
		// order: a definition refers only to definitions with a larger statement index or to nested ones created before it is
		// closed; emitting in reverse creation order puts every callee first
		rev := defs
		return strings.Join(rev, "\n") + "\n" + strings.Join(append(Lm, "  "+enter), "\n") + "\n", ""
	}
	if fi.proc && !fi.rec && outlineOK(fi) {
		// a procedure whose top-level statements each only update the map: one Lean function per statement (`f_s<i>`), chained by
		// the main function - the refinement proofs can then take the statements one at a time
		var pre strings.Builder
		hdrS := strings.Join(hdr, " ")
		f := ""
		if fi.fuel {
			f = " (fuel : Nat)"
		}
		argS := "g T"
		if fi.fuel {
			argS += " fuel"
		}
		for _, p := range pats {
			argS += " " + p
		}
		main := []string{}
		for i, st := range fi.decl.Body.List {
			x.out = nil
			x.used = map[string]int{}
			x.scopes = nil
			x.push()
			for j, p := range fi.pnames {
				x.declare(p, fi.params[j])
			}
			x.emit(1, "let mut "+pats[0]+" := "+pats[0])
			x.push()
			x.stmt(1, st)
			x.pop()
			x.emit(1, "return "+pats[0])
			fmt.Fprintf(&pre, "/-- statement %d of `%s` -/\ndef %s_s%d (g : Globals) (T : Tables)%s %s : Option %s := do\n%s\n\n", i+1, name, name, i+1, f, hdrS, rt, strings.Join(x.out, "\n"))
			main = append(main, fmt.Sprintf("  let %s ← %s_s%d %s", pats[0], name, i+1, argS))
		}
		main = append(main, "  return "+pats[0])
		return pre.String() + strings.Join(append(L, main...), "\n") + "\n", ""
	}
	x.push()
	for _, s := range fi.decl.Body.List {
		x.stmt(ind, s)
	}
	x.pop()
	if fi.proc {
		g, _ := x.lookup(fi.pnames[0])
		x.emit(ind, "return "+g.lean)
	}
	return strings.Join(append(L, x.out...), "\n") + "\n", ""
}

func main() {
	dir := os.Args[1]
	fset := token.NewFileSet()
	pkgs, err := parser.ParseDir(fset, dir, func(fi os.FileInfo) bool { return !strings.HasSuffix(fi.Name(), "_test.go") }, parser.SkipObjectResolution)
	if err != nil {
		fmt.Fprintln(os.Stderr, err)
		os.Exit(2)
	}
	x := &tr{fset: fset, fns: map[string]*fnInfo{}}
	failed := map[string]string{}
	for _, pkg := range pkgs {
		fnames := []string{}
		for fn := range pkg.Files {
			fnames = append(fnames, fn)
		}
		sort.Strings(fnames)
		for _, fn := range fnames {
			for _, d := range pkg.Files[fn].Decls {
				fd, ok := d.(*ast.FuncDecl)
				if !ok || fd.Recv != nil || fd.Body == nil {
					continue
				}
				if _, want := sigs[fd.Name.Name]; want {
					x.fns[fd.Name.Name] = &fnInfo{decl: fd}
				}
			}
		}
	}
	// signatures
	for name, fi := range x.fns {
		func() {
			defer func() {
				if r := recover(); r != nil {
					if u, ok := r.(unsupported); ok {
						failed[name] = u.msg
						return
					}
					panic(r)
				}
			}()
			sg := sigs[name]
			for _, f := range fi.decl.Type.Params.List {
				for _, n := range f.Names {
					rd := ""
					if sg.params != nil {
						rd = sg.params[strconv.Itoa(len(fi.params))]
					}
					fi.params = append(fi.params, x.goType(f.Type, rd))
					fi.pnames = append(fi.pnames, n.Name)
				}
			}
			i := 0
			if fi.decl.Type.Results != nil {
				for _, f := range fi.decl.Type.Results.List {
					k := len(f.Names)
					if k == 0 {
						k = 1
					}
					for j := 0; j < k; j++ {
						rd := ""
						if i < len(sg.results) {
							rd = sg.results[i]
						}
						fi.results = append(fi.results, x.goType(f.Type, rd))
						i++
					}
				}
			}
			if len(fi.results) == 0 {
				if len(fi.params) > 0 && fi.params[0].k == "JObj" {
					fi.results = []*ty{T("JObj")}
					fi.proc = true
				} else {
					x.bad(fi.decl, "function without results")
				}
			}
		}()
	}
	for name := range sigs {
		if _, ok := x.fns[name]; !ok {
			failed[name] = "function not found in the package"
		}
	}
	for name := range failed {
		delete(x.fns, name)
	}
	// recursion and fuel
	names := map[string]bool{}
	for n := range x.fns {
		names[n] = true
	}
	calls := map[string]map[string]bool{}
	for n, fi := range x.fns {
		calls[n] = callsOf(fi.decl, names)
		if calls[n][n] {
			fi.rec = true
			fi.fuel = true
		}
	}
	group := map[string]int{}
	for gi, grp := range mutualGroups {
		for _, n := range grp {
			if fi, ok := x.fns[n]; ok {
				fi.rec = true
				fi.fuel = true
				group[n] = gi + 1
			}
		}
	}
	for changed := true; changed; {
		changed = false
		for n, fi := range x.fns {
			if fi.fuel {
				continue
			}
			for c := range calls[n] {
				if x.fns[c].fuel {
					fi.fuel = true
					changed = true
				}
			}
		}
	}
	// mutual recursion is outside the subset: a function may only call functions emitted before it (or itself)
	pos := map[string]int{}
	for i, n := range order {
		pos[n] = i
	}
	for n := range x.fns {
		for c := range calls[n] {
			if c != n && pos[c] >= pos[n] && !(group[c] != 0 && group[c] == group[n]) {
				failed[n] = "calls " + c + ", which is not emitted before it (mutual recursion is outside the subset)"
			}
		}
	}
	okList := []string{}
	texts := map[string]string{}
	sigOut := map[string]string{}
	for _, n := range order {
		fi, ok := x.fns[n]
		if !ok {
			continue
		}
		if _, bad := failed[n]; bad {
			continue
		}
		// a callee that failed makes the caller fail too
		dep := ""
		for c := range calls[n] {
			if _, bad := failed[c]; bad && c != n {
				dep = c
			}
		}
		if dep != "" {
			failed[n] = "calls " + dep + ", which could not be translated"
			continue
		}
		text, e := x.function(n)
		if e != "" {
			failed[n] = e
			continue
		}
		texts[n] = text
		okList = append(okList, n)
		_ = fi
	}
	// stubs for what failed, so that the generated module still elaborates and exactly the obligations about these functions fail
	for n := range failed {
		sigOut[n] = failed[n]
	}
	var b strings.Builder
	sort.Strings(litOrder)
	for _, l := range litOrder {
		fmt.Fprintf(&b, "def %s : Str := %s.toList\n", litNames[l], strconv.Quote(l))
	}
	b.WriteString("\n")
	// a mutual group is emitted only when every member was translated
	for _, grp := range mutualGroups {
		all := true
		for _, n := range grp {
			if _, ok := texts[n]; !ok {
				all = false
			}
		}
		if !all {
			for _, n := range grp {
				if _, ok := texts[n]; ok {
					delete(texts, n)
					failed[n] = "its mutual group could not be translated as a whole"
				}
			}
		}
	}
	okList = okList[:0]
	inMutual := 0
	for _, n := range order {
		t, ok := texts[n]
		if !ok {
			continue
		}
		okList = append(okList, n)
		if group[n] != 0 && inMutual != group[n] {
			if inMutual != 0 {
				b.WriteString("end\n\n")
			}
			b.WriteString("mutual\n")
			inMutual = group[n]
		} else if group[n] == 0 && inMutual != 0 {
			b.WriteString("end\n\n")
			inMutual = 0
		}
		b.WriteString(t)
		b.WriteString("\n")
	}
	if inMutual != 0 {
		b.WriteString("end\n\n")
	}
	out := map[string]any{"lean": b.String(), "ok": okList, "failed": failed}
	enc := json.NewEncoder(os.Stdout)
	enc.SetEscapeHTML(false)
	enc.Encode(out)
}
