#!/usr/bin/env python3
"""regenerate MANIFEST.json from tools/registry.py"""
import json, os, sys
sys.path.insert(0, os.path.dirname(os.path.abspath(__file__)))
from registry import PROPS, TRUSTED_BASE
ALL = ["C%02d" % i for i in range(1, 21)]
checks = []
for pid in ALL:
    if pid not in PROPS:
        continue
    sp = PROPS[pid]
    checks.append({
        "property_id": pid,
        "quick_cmd": "./check %s --tier quick" % pid,
        "thorough_cmd": "./check %s --tier thorough" % pid,
        "evidence_file": "/verif/evidence/%s.json" % pid,
        "replay_cmd_template": "./check %s --replay {path}" % pid,
        "engine": "lean-proof+correspondence",
        "level_claimed": {
            "category": "proof",
            "text": sp.get("level_text") or ("Lean 4 theorems about the executable model (%s), for all inputs; the model is tied to /repo on every run by regenerating its tables from the built binary and by differential execution of model and implementation on the operations the theorems depend on; an implementation-side oracle turns any break into a replayable input. %s" % (", ".join(t.split(".")[-1] for t in sp["theorems"]), sp.get("partial", ""))),
            "design_ref": sp.get("design_ref", "DESIGN.md section 3, " + pid),
        },
        "level_note": sp.get("level_note") or "Trusted: Lean kernel + propext/Classical.choice/Quot.sound; the table translator; the correspondence harness and generators; library behaviour listed in DESIGN.md 2.9. " + sp.get("partial", ""),
        "technique": sp.get("technique", "machine-checked proof in Lean 4 over an executable model + regenerated tables + model/implementation correspondence"),
    })
na = [{"property_id": p, "reason": "check under construction in this session: no theorem registered yet (not a claim that the technique cannot apply)"} for p in ALL if p not in PROPS]
m = {
    "version": 1,
    "setup_cmd": "./setup.sh",
    "hooks": {
        "guard": "verif",
        "enable": "cd /repo && GOFLAGS=-mod=mod GOPROXY=off go build -tags verif -overlay /verif/build/overlay.json -o /verif/build/anonymongo_verif ./src   (the overlay maps /repo/src/zz_verif_*.go to /verif/harness/*.go, all '//go:build verif'; no file is added to /repo)",
        "baseline_off_cmd": "cd /repo && GOFLAGS=-mod=mod GOPROXY=off go test -json -vet=off -count=1 -timeout 25m ./...",
        "source_commits": [],
        "add_only": True,
    },
    "engines": [{"name": "lean-proof+correspondence", "path": "/verif/check", "serves_properties": [c["property_id"] for c in checks],
                 "kind_free_text": "Lean 4 theorems over an executable model (lean/Anonymongo), table translator (tools/gen_tables.py), Go harness compiled into package main through a build overlay (harness/), Lean line-protocol driver (lean/Driver.lean), correspondence + oracles (tools/)"}],
    "checks": checks,
    "not_applicable": na,
    "notes": "Genuine defects found by the machinery were repaired in /repo as unguarded 'fix:' commits (listed in known_findings.jsonl as fixed entries); recorded known findings are in known_findings.jsonl.",
}
json.dump(m, open(os.path.join(os.path.dirname(os.path.dirname(os.path.abspath(__file__))), "MANIFEST.json"), "w"), indent=1)
print("MANIFEST.json:", len(checks), "checks,", len(na), "not yet")
