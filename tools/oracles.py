"""Implementation-side oracles: they need no model. Each runs the REAL code (in-process through the
harness, or the real CLI) on generated cases and decides the property directly; a failure is a
concrete replayable input.  run(pid, ...) -> {"violations": [...], "stats": {...}, "samples": [...]}"""
import base64, collections, datetime, re as pyre
from vlib import *
from gen import *
import corr

TOK = pyre.compile(r"zq\d+x([a-z]+)")


def site_of(path, extra=""):
    parts = []
    for p in path:
        if isinstance(p, int):
            continue
        parts.append(TOK.sub(lambda m: "<" + m.group(1) + ">", p))
    return "/".join(parts) + (":" + extra if extra else "")


def has_dups(t):
    if isinstance(t, Obj):
        ks = t.keys()
        return len(set(ks)) != len(ks) or any(has_dups(v) for _, v in t)
    if isinstance(t, list):
        return any(has_dups(v) for v in t)
    return False


class Case:
    def __init__(self, tree, roles=None, fields=(), ns="", kind="grammar"):
        self.tree, self.roles, self.fields, self.ns, self.kind = tree, roles or {}, list(fields), ns, kind
        self.text = to_json(tree)


def grammar_cases(seed, n, exotic=True):
    rng = SplitMix(seed)
    out = []
    for i in range(n):
        g = G(rng.fork(), exotic=exotic and i % 2 == 1)
        t = g.line()
        out.append(Case(t, g.roles, g.fields, g.ns))
    # directed tail: WIDE lists (an `$in` over more than a thousand values is ordinary) - all plain strings, and with a number /
    # an e-mail / a document among them - in a filter, a `$match` and an update
    for j, (n_, odd) in enumerate([(1001, None), (1500, None), (1200, "num"), (1100, "email"), (1000, None), (2000, "doc")]):
        g = G(rng.fork())
        vals = [g.tok("S") for _ in range(n_)]
        if odd == "num":
            vals[n_ // 2] = g.num()
        elif odd == "email":
            vals[7] = g.email()
        elif odd == "doc":
            vals[-1] = Obj([(g.field(), g.tok("S"))])
        f = g.field()
        op = ["$in", "$nin", "$all"][j % 3]
        cmd = [Obj([("find", "widecoll"), ("filter", Obj([(f, Obj([(op, vals)]))])), ("$db", "widedb")]),
               Obj([("aggregate", "widecoll"), ("pipeline", [Obj([("$match", Obj([(f, Obj([(op, vals)]))]))])]), ("$db", "widedb")]),
               Obj([("update", "widecoll"), ("updates", [Obj([("q", Obj([(f, g.tok("S"))])), ("u", Obj([("$push", Obj([(f, Obj([("$each", vals)]))]))]))])]), ("$db", "widedb")])][j % 3]
        t = Obj([("t", Obj([("$date", "2024-05-02T12:00:00.000+00:00")])), ("s", "I"), ("c", "COMMAND"), ("id", Num("51803")), ("ctx", "conn9"), ("msg", "Slow query"),
                 ("attr", Obj([("type", "command"), ("ns", "widedb.widecoll"), ("command", cmd), ("durationMillis", Num("12"))]))])
        out.append(Case(t, g.roles, g.fields, "widedb.widecoll", "grammar"))
    return out


def misc_cases(tables, seed, n):
    rng = SplitMix(seed ^ 0xBEEF)
    voc = vocab(tables)
    out = []
    for i in range(n):
        k = i % 3
        if k == 0:
            out.append(Case(other_line(rng), kind="other"))
        else:
            t = arb_tree(rng, voc)
            line = Obj([("t", Obj([("$date", "2024-01-01T00:00:00.000+00:00")])), ("c", rng.choice(["COMMAND", "QUERY", "WRITE", "NETWORK"])), ("msg", rng.choice(["Slow query", "x"])),
                        ("attr", Obj([("ns", "a.b"), ("remote", "1.2.3.4:5"), ("command", Obj([("find", "b"), ("filter", t if isinstance(t, Obj) else Obj([("v", t)])), ("pipeline", [t, t]), ("updates", [t]), ("u", t)])),
                                      ("originatingCommand", t), ("cmd", Obj([("q", t)])), ("planSummary", "IXSCAN { a: 1 }")]))])
            out.append(Case(line, kind="arb"))
    return out


def run_lines(cases_cfgs):
    """[(case, cfg)] -> list of go results (raw answer strings)"""
    ops = [(str(i), ["line", c.s(), hx(cs.text)]) for i, (cs, c) in enumerate(cases_cfgs)]
    res = go_exec(ops)
    return [res.get(str(i), "noanswer") for i in range(len(ops))]


def out_text(r):
    if r.startswith("ok "):
        return unhxb(r[3:]).decode("utf-8", "replace")
    return None


FULL_CFGS = [Cfg(), Cfg(n=True), Cfg(b=True), Cfg(n=True, b=True, i=True, w=True), Cfg(repl='X"y\\z é'), Cfg(repl=""), Cfg(repl="$r", n=True),
             Cfg(enc=3), Cfg(enc=3, n=True, b=True, w=True), Cfg(enc=2)]


def token_leaves(tree):
    """token -> list of (path, leaf) for every scalar leaf whose text contains the token"""
    out = collections.defaultdict(list)
    for p, l in leaves(tree):
        if isinstance(l, str):
            for m in TOK.finditer(l):
                out[m.group(0)].append((p, l))
    return out


# ------------------------------------------------------------------------------------------- C03

def oracle_c03(tables, seed, tier, deep):
    n = 1200 if (tier == "thorough" or deep) else 160
    cases = grammar_cases(seed, n) + misc_cases(tables, seed, n // 2)
    cfgs = FULL_CFGS + [Cfg(re="^(ssn|name|a)$"), Cfg(re="x", n=True, b=True)]
    pairs = []
    for i, cs in enumerate(cases):
        for j in range(3):
            c = cfgs[(i * 3 + j) % len(cfgs)]
            if c.re is None and cs.fields and j == 2:
                f0 = TOK.search(cs.fields[0])
                c = Cfg(re="^(" + (f0.group(0) if f0 else "zqnone") + ")$")
            pairs.append((cs, c))
    res = run_lines(pairs)
    viol, distinct = [], set()
    dist = collections.Counter()
    for (cs, c), r in zip(pairs, res):
        dist[cs.kind] += 1
        t = out_text(r)
        if has_dups(cs.tree):
            dist["skipped-dup-keys"] += 1
            continue
        distinct.add(cs.text)
        bad = None
        if t is None:
            bad = ("", "no output line for a valid JSON object: " + r[:80])
        elif "\n" in t or "\r" in t:
            bad = ("", "raw newline in output line")
        else:
            try:
                o = parse_json(t)
            except Exception as e:
                bad = ("", "output is not valid JSON: %s" % e)
            else:
                d = shape_diff(cs.tree, o)
                if d:
                    bad = (site_of(d[0]), d[1])
        if bad:
            viol.append({"site": "shape:" + bad[0], "detail": bad[1], "cfg": c.s(), "cli_flags": c.cli(), "input": cs.text, "output": t})
    # streams that end in a failure: whatever reached the output must still consist of whole, valid JSON lines
    rng = SplitMix(seed ^ 0x303)
    sops = []
    good = [cs.text.encode() for cs in cases[:60] if "\n" not in cs.text]
    for i in range(12 if (tier == "thorough" or deep) else 5):
        k = [3, 12, 25, 40, 60][i % 5]
        body = good[:k]
        tail = [b'{"a":"' + b"y" * 70000 + b'"}', b'{"a":"' + b"y" * 66000][i % 2]
        data = b"\n".join(body + [tail] + good[:3]) + b"\n"
        sops.append(("t%d" % i, ["stream", Cfg().s(), "-", hx(data)]))
        sops.append(("r%d" % i, ["stream", Cfg().s(), "c4096,r%d" % (len(b"\n".join(body)) - rng.below(50)), hx(b"\n".join(body) + b"\n")]))
    sres = go_exec(sops)
    for oid, f in sops:
        p = sres.get(oid, "noanswer x").split(" ")
        dist["failing-stream:" + p[0]] += 1
        try:
            out = unhxb(p[1])
        except Exception:
            continue
        if out and not out.endswith(b"\n"):
            viol.append({"site": "stream:failure:torn-last-line", "detail": "the run ended with status %s and the output ends in the middle of a line: ...%r" % (p[0], out[-80:]), "cfg": Cfg().s(), "faults": f[2], "input_hex": f[3][:4000]})
            continue
        for ln in out.split(b"\n")[:-1]:
            try:
                o = parse_json(ln.decode("utf-8"))
                assert isinstance(o, Obj)
            except Exception as e:
                viol.append({"site": "stream:failure:invalid-line", "detail": "status %s, an emitted line is not a JSON object: %r" % (p[0], ln[:120]), "cfg": Cfg().s(), "faults": f[2], "input_hex": f[3][:4000]})
                break
    # through the real CLI with a SLOW consumer on stdout: every physical output line must be a JSON object of the shape of its input line
    import tempfile, shutil
    work = tempfile.mkdtemp(prefix="verif_c03_")
    try:
        big_cases = [cs for cs in cases if "\n" not in cs.text and not has_dups(cs.tree)]
        reps = max(1, (2500 if not (tier == "thorough" or deep) else 6000) // max(1, len(big_cases)))
        seq = []
        for r_ in range(reps):
            for j, cs in enumerate(big_cases):
                seq.append(cs)
        fbig = os.path.join(work, "big.log")
        with open(fbig, "wb") as fh:
            for cs in seq:
                fh.write(cs.text.encode("utf-8") + b"\n")
        rcs, sos = run_cli_slow(["redact", "--redactNumbers", fbig], cwd=work)
        dist["cli-slow-consumer:exit%d" % rcs] += 1
        outl = sos.split(b"\n")
        if rcs != 0 or (outl and outl[-1] != b"") or len(outl) - 1 != len(seq):
            viol.append({"site": "cli:slow-consumer:lines", "detail": "exit %d; %d input entries gave %d physical output lines (stdout read slowly)" % (rcs, len(seq), len(outl) - 1), "cfg": Cfg(n=True).s(), "cli_flags": ["--redactNumbers"],
                         "input": "%d entries, stdout read slowly; first entry: %s" % (len(seq), seq[0].text[:300] if seq else "")})
        else:
            for cs, ln in zip(seq, outl):
                try:
                    o = parse_json(ln.decode("utf-8"))
                    d = shape_diff(cs.tree, o)
                except Exception as e:
                    d = ((), "output line is not valid JSON: %s" % e)
                if d:
                    viol.append({"site": "cli:slow-consumer:shape:" + site_of(d[0]), "detail": "stdout read slowly: %s; line %r" % (d[1], ln[:160]), "cfg": Cfg(n=True).s(), "cli_flags": ["--redactNumbers"], "input": cs.text, "output": ln.decode("utf-8", "replace")})
                    break
    finally:
        shutil.rmtree(work, ignore_errors=True)
    return result(viol, len(pairs) + len(sops), len(distinct), "grammar lines + other-component lines + arbitrary operator trees x flag sets without --redactFieldNames; distinct = distinct input lines; non-trivial = parsed object without duplicate keys; plus streams that fail part-way (over-long line after 3..60 lines, read error): every emitted physical line must still be a whole JSON object",
                  dist, [pairs[0][0].text[:400]] if pairs else [])


# ------------------------------------------------------------------------------------------- C01

SENSITIVE_ROLES = ("S", "E", "D", "O", "X")


def corpus_cases():
    """minimised past failures and directed witnesses, run first by the planted-token oracles"""
    out = []
    mlt = Obj([("c", "COMMAND"), ("msg", "Slow query"), ("attr", Obj([("ns", "d.c"), ("command", Obj([("aggregate", "c"), ("pipeline", [Obj([("$search", Obj([("moreLikeThis", Obj([("like", Obj([
        ("numBuckets", "zq900001xs"), ("text", Obj([("score", "zq900002xs")])), ("title", "zq900003xs")]))]))]))])]), ("$db", "d")]))]))])
    out.append(Case(mlt, {"zq900001xs": "S", "zq900002xs": "S", "zq900003xs": "S"}, [], "d.c", "corpus"))
    bad = Obj([("c", "COMMAND"), ("msg", "Slow query"), ("attr", Obj([("ns", "d.c"), ("originatingCommand", None), ("cmd", "zqnotadoc"), ("command", Obj([("find", "c"), ("filter", Obj([("a", "zq900004xs")])), ("$db", "d")]))]))])
    out.append(Case(bad, {"zq900004xs": "S"}, [], "d.c", "corpus"))
    return out


def leak_site(path):
    keys = [p for p in path if not isinstance(p, int)]
    if "moreLikeThis" in keys and keys[keys.index("moreLikeThis") + 1: keys.index("moreLikeThis") + 2] == ["like"]:
        return "search:moreLikeThis.like:field-named-like-a-search-option"
    return site_of(path)


MLT_SITE = "search:moreLikeThis.like:field-named-like-a-search-option"


def token_leak_site(cs, tok):
    """the normalised site (leak_site) of the first input leaf that holds the planted token"""
    for p, leaf in leaves(cs.tree):
        if isinstance(leaf, str) and tok in leaf:
            return leak_site(p)
    return None


def oracle_c01(tables, seed, tier, deep):
    n = 2500 if (tier == "thorough" or deep) else 250
    cases = corpus_cases() + grammar_cases(seed, n)
    cfgs = FULL_CFGS + [Cfg(eager=("",), n=True)]
    pairs = []
    for i, cs in enumerate(cases):
        for j in range(2):
            pairs.append((cs, cfgs[(i * 2 + j) % len(cfgs)]))
    res = run_lines(pairs)
    viol = []
    dist = collections.Counter()
    planted = 0
    for (cs, c), r in zip(pairs, res):
        t = out_text(r)
        if t is None:
            viol.append({"site": "noline", "detail": "valid line produced no output: " + r[:100], "cfg": c.s(), "input": cs.text})
            continue
        tl = None
        for tok, role in cs.roles.items():
            sens = role in SENSITIVE_ROLES or (role == "N" and c.n)
            if not sens:
                continue
            planted += 1
            dist[role] += 1
            if tok in t:
                tl = tl or token_leaves(cs.tree)
                where = tl.get(tok) or [(p, l) for p, l in leaves(cs.tree) if isinstance(l, (str, Num)) and tok in str(l)]
                path = where[0][0] if where else ()
                site = "leak:" + leak_site(path)
                viol.append({"site": site, "detail": "literal %r (role %s) at %s survives in the output line" % (tok, role, "/".join(str(x) for x in path)), "token": tok,
                             "cfg": c.s(), "cli_flags": c.cli(), "input": cs.text, "output": t})
        if c.i:
            rem = get_path(cs.tree, ("attr", "remote"))
            if isinstance(rem, str):
                try:
                    got_rem = get_path(parse_json(t), ("attr", "remote"))
                except Exception:
                    got_rem = None
                if got_rem != "255.255.255.255:65535":
                    viol.append({"site": "leak:attr/remote", "detail": "client address %r comes out as %r with --redactIPs" % (rem, got_rem), "cfg": c.s(), "cli_flags": c.cli(), "input": cs.text, "output": t})
    return result(viol, len(pairs), planted, "grammar-generated lines with a unique token planted in every sensitive literal; evaluations = (line, flag set) pairs; distinct_nontrivial = planted sensitive literals checked for absence from the whole output line",
                  dist, [pairs[1][0].text[:400]] if len(pairs) > 1 else [])


# ------------------------------------------------------------------------------------------- C02

def reassign(tree, roles, rng, c):
    """class-preserving re-assignment of all sensitive literals; one case in three makes ALL ordinary strings equal
    (so that anything that compares secrets with one another - de-duplication, sorting, interning - shows up)"""
    memo = {}
    collapse = rng.chance(1, 3)

    def new_for(tok, role):
        if tok not in memo:
            k = rng.below(6)
            if collapse and role == "S":
                k = 5
            if role == "E":
                memo[tok] = "other%d.%s@mail%d.example" % (rng.below(10 ** 6), "x" * rng.below(20), rng.below(99))
            elif role in ("D", "O", "X"):
                memo[tok] = ["1999-12-31T23:59:59.999Z", "not a date " + "y" * rng.below(500), "", "ffffffffffffffffffffffff", "QQ==", '"\\\n'][k]
            else:
                memo[tok] = ["w", "v" * (1 + rng.below(3000)), 'q"uo\\te\n\t<&>', "ünï çødé \U0001F600", "a$b", "same"][k]
        return memo[tok]

    ZONE = {"query", "filter", "update", "updates", "q", "u", "deletes", "documents", "pipeline", "arrayFilters"}
    KEPT_BOOL_KEYS = {"returnStoredSource", "concurrent", "exact", "scoreDetails"}

    def go(t, inzone=False, key=None, depth=0):
        if isinstance(t, Obj):
            return Obj([(k, go(v, inzone or (depth == 2 and k in ZONE), k, depth + 1)) for k, v in t])
        if isinstance(t, list):
            return [go(v, inzone, key, depth) for v in t]
        if isinstance(t, Num):
            for tok, role in roles.items():
                if role == "N" and tok in str(t) and c.n:
                    return Num(str(rng.below(10 ** 9)) + rng.choice(["", ".25", "e2"]))
            return t
        if isinstance(t, str):
            ms = [m.group(0) for m in TOK.finditer(t)]
            ms = [m for m in ms if roles.get(m) in ("S", "E")]
            if ms:
                return new_for(ms[0], roles[ms[0]])
            if roles.get(t) in ("D", "O", "X"):
                return new_for(t, roles[t])
            return t
        if isinstance(t, bool) and c.b and inzone and key not in KEPT_BOOL_KEYS:
            return rng.chance(1, 2)
        return t
    return go(tree)


def to_placeholders(tree, roles, c, tables, email_ph):
    """the same entry with every sensitive literal ALREADY equal to what the redactor would put there"""
    ZONE = {"query", "filter", "update", "updates", "q", "u", "deletes", "documents", "pipeline", "arrayFilters"}
    KEPT_BOOL_KEYS = {"returnStoredSource", "concurrent", "exact", "scoreDetails"}

    def go(t, inzone=False, key=None, depth=0):
        if isinstance(t, Obj):
            return Obj([(k, go(v, inzone or (depth == 2 and k in ZONE), k, depth + 1)) for k, v in t])
        if isinstance(t, list):
            return [go(v, inzone, key, depth) for v in t]
        if isinstance(t, Num):
            for tok, role in roles.items():
                if role == "N" and tok in str(t) and c.n:
                    return Num("0")
            return t
        if isinstance(t, str):
            ms = [m.group(0) for m in TOK.finditer(t) if roles.get(m.group(0)) in ("S", "E")]
            if ms:
                return email_ph if roles[ms[0]] == "E" else c.repl
            if roles.get(t) == "D":
                return tables["RedactedISODate"]
            if roles.get(t) == "O":
                return tables["RedactedObjectId"]
            if roles.get(t) == "X":
                return tables["RedactedUUID"]
            return t
        if isinstance(t, bool) and c.b and inzone and key not in KEPT_BOOL_KEYS:
            return False
        return t
    return go(tree)


def to_json_blanks(t):
    """to_json with one blank behind every ':' and ',' (what many drivers and `jq -c`-less tools write)"""
    if isinstance(t, Obj):
        return "{" + ", ".join(json.dumps(k, ensure_ascii=False) + ": " + to_json_blanks(v) for k, v in t) + "}"
    if isinstance(t, list) and not isinstance(t, Obj):
        return "[" + ", ".join(to_json_blanks(e) for e in t) + "]"
    return to_json(t)


def oracle_c02(tables, seed, tier, deep):
    n = 1500 if (tier == "thorough" or deep) else 200
    cases = corpus_cases() + grammar_cases(seed ^ 0x2, n)
    cfgs = [Cfg(), Cfg(n=True), Cfg(b=True), Cfg(n=True, b=True, i=True, w=True), Cfg(repl='X"y\\z é'), Cfg(repl=""), Cfg(eager=("",)), Cfg(eager=("",), n=True, b=True)]
    rng = SplitMix(seed ^ 0xC02)
    pairs, twins = [], []
    for i, cs in enumerate(cases):
        c = cfgs[i % len(cfgs)]
        t2 = reassign(cs.tree, cs.roles, rng, c)
        pairs.append((cs, c))
        twins.append((Case(t2), c))
    r1 = run_lines(pairs)
    r2 = run_lines(twins)
    viol = []
    differing = 0
    for (cs, c), (cs2, _), a, b in zip(pairs, twins, r1, r2):
        if cs.text != cs2.text:
            differing += 1
        if a != b:
            ta, tb = out_text(a) or a, out_text(b) or b
            k = next((j for j in range(min(len(ta), len(tb))) if ta[j] != tb[j]), min(len(ta), len(tb)))
            site = "interference"
            try:
                dd = leaf_diffs(parse_json(ta), parse_json(tb))
                if dd:
                    site = "interference:" + leak_site(dd[0][0])
            except Exception:
                pass
            viol.append({"site": site, "detail": "outputs differ at byte %d: %r vs %r" % (k, ta[max(0, k - 60):k + 60], tb[max(0, k - 60):k + 60]),
                         "cfg": c.s(), "cli_flags": c.cli(), "input": cs.text, "input2": cs2.text})
    # the same entry SPELLED differently (characters of keys / literals as \\uXXXX escapes, `\\/`, white space between tokens) decodes to
    # the same tree, so it must come out as the same bytes: nothing may be decided from the raw text of the line
    spelled, smeta0 = [], []
    for i, (cs, c) in enumerate(pairs[:(400 if (tier == "thorough" or deep) else 120)]):
        for mode, ws in (("at", False), ("some", i % 2 == 0), ("all", False), ("slash", True))[: (4 if i % 3 == 0 else 2)]:
            cs3 = Case(cs.tree, cs.roles)
            cs3.text = to_json_spelled(cs.tree, rng, mode, ws)
            if cs3.text != cs.text and parse_json(cs3.text) == parse_json(cs.text):
                spelled.append((cs3, c))
                smeta0.append((i, mode))
    r3 = run_lines(spelled)
    for (cs3, c), (i, mode), b in zip(spelled, smeta0, r3):
        a = r1[i]
        if a != b:
            ta, tb = out_text(a) or a, out_text(b) or b
            k = next((j for j in range(min(len(ta), len(tb))) if ta[j] != tb[j]), min(len(ta), len(tb)))
            viol.append({"site": "interference:spelling", "detail": "the same entry with characters written as escapes (%s) comes out differently at byte %d: %r vs %r" % (mode, k, ta[max(0, k - 60):k + 60], tb[max(0, k - 60):k + 60]),
                         "cfg": c.s(), "cli_flags": c.cli(), "input": pairs[i][0].text, "input2": cs3.text})
    # entries whose secrets ALREADY equal their placeholders, written with blanks behind ':' and ',': they must come out exactly like the
    # same entries (same spelling) with other secrets - "nothing was replaced" is not something the output may show
    try:
        email_ph = json.load(open(os.path.join(BUILD, "facts.json")))["emailPH"]
    except Exception:
        email_ph = "redacted@redacted.com"
    ph_pairs, ph_twins, ph_meta = [], [], []
    for i, (cs, c) in enumerate(pairs[:(300 if (tier == "thorough" or deep) else 80)]):
        if c.eager or not c.repl or c.repl.startswith("$") or has_dups(cs.tree):
            continue
        a_ = Case(cs.tree, cs.roles)
        a_.text = to_json_blanks(to_placeholders(cs.tree, cs.roles, c, tables, email_ph))
        b_ = Case(cs.tree, cs.roles)
        b_.text = to_json_blanks(twins[i][0].tree)
        if "\n" in a_.text or "\n" in b_.text:
            continue
        ph_pairs.append((a_, c)); ph_twins.append((b_, c)); ph_meta.append(i)
    ra, rb = run_lines(ph_pairs), run_lines(ph_twins)
    for (a_, c), (b_, _), x, y, i in zip(ph_pairs, ph_twins, ra, rb, ph_meta):
        if x != y and r1[i] == r2[i]:
            tx, ty = out_text(x) or x, out_text(y) or y
            k = next((j for j in range(min(len(tx), len(ty))) if tx[j] != ty[j]), min(len(tx), len(ty)))
            viol.append({"site": "interference:placeholder-valued", "detail": "an entry whose secrets already equal their placeholders comes out differently from the same entry with other secrets, at byte %d: %r vs %r" % (k, tx[max(0, k - 60):k + 60], ty[max(0, k - 60):k + 60]),
                         "cfg": c.s(), "cli_flags": c.cli(), "input": a_.text, "input2": b_.text})
    # whole streams: the outputs for [L, L] and [L, L'] (and [L, X, L] / [L, X, L']) must be the same bytes - the output may not
    # even reveal WHETHER two entries carry the same secrets
    sops, smeta = [], []
    for i, ((cs, c), (cs2, _)) in enumerate(zip(pairs[:60], twins[:60])):
        if "\n" in cs.text or "\n" in cs2.text or cs.text == cs2.text or c.eager or r1[i] != r2[i]:
            continue          # (a pair whose single lines already differ is reported above, under its own site)
        L, L2 = cs.text.encode("utf-8"), cs2.text.encode("utf-8")
        if max(len(L), len(L2)) >= 65000:
            continue          # the reader refuses lines beyond 64 KiB with an explicit error (C07): a re-assignment that makes the entry that long is another input class
        X = b'{"c":"NETWORK","msg":"between","attr":{"k":1}}'
        for tag, da, db in (("dup", L + b"\n" + L + b"\n", L + b"\n" + L2 + b"\n"), ("sep", L + b"\n" + X + b"\n" + L + b"\n", L + b"\n" + X + b"\n" + L2 + b"\n")):
            sops.append(("a%d%s" % (i, tag), ["stream", c.s(), "-", hx(da)]))
            sops.append(("b%d%s" % (i, tag), ["stream", c.s(), "-", hx(db)]))
            smeta.append(("%d%s" % (i, tag), c, da, db))
    sres = go_exec(sops)
    for key, c, da, db in smeta:
        a, b = sres.get("a" + key, "noanswer"), sres.get("b" + key, "noanswer")
        if a != b:
            viol.append({"site": "interference:stream", "detail": "a stream holding an entry twice and the same stream with the secrets of the second copy re-assigned give different output (%d vs %d bytes)" % (len(a), len(b)),
                         "cfg": c.s(), "cli_flags": c.cli(), "input_hex": hx(da), "input2_hex": hx(db)})
    return result(viol, 2 * len(pairs) + len(sops) + len(spelled) + 2 * len(ph_pairs), differing, "pairs (L, L') of grammar lines, L' = class-preserving re-assignment of every sensitive literal (length x1000, JSON metacharacters, equal/unequal); distinct_nontrivial = pairs whose inputs really differ",
                  {}, [{"L": pairs[0][0].text[:300], "L2": twins[0][0].text[:300]}] if pairs else [])


# ------------------------------------------------------------------------------------------- C05

def placeholder_validity(tables):
    bad = []
    try:
        datetime.datetime.strptime(tables["RedactedISODate"], "%Y-%m-%dT%H:%M:%S.%fZ")
    except Exception:
        bad.append("RedactedISODate is not an ISO-8601 instant: " + tables["RedactedISODate"])
    if not pyre.fullmatch(r"[0-9a-f]{24}", tables["RedactedObjectId"]):
        bad.append("RedactedObjectId is not 24 hex digits")
    try:
        base64.b64decode(tables["RedactedUUID"], validate=True)
    except Exception:
        bad.append("RedactedUUID is not valid base64")
    if tables["RedactedNumber"] != "0":
        bad.append("RedactedNumber is not 0")
    if tables["RedactedBoolean"] != "false":
        bad.append("RedactedBoolean is not false")
    return bad


def oracle_c05(tables, seed, tier, deep):
    n = 2000 if (tier == "thorough" or deep) else 250
    cases = grammar_cases(seed ^ 0x5, n)
    cfgs = [Cfg(), Cfg(n=True, b=True), Cfg(repl='X"y\\z é', n=True), Cfg(repl=""), Cfg(repl="ünï \U0001F600 \\u0041 </script>")]
    facts = json.load(open(os.path.join(BUILD, "facts.json")))
    email_ph = facts["emailPH"]
    pairs = [(cs, cfgs[i % len(cfgs)]) for i, cs in enumerate(cases)]
    res = run_lines(pairs)
    viol = [{"site": "constant", "detail": d} for d in placeholder_validity(tables)]
    if not pyre.fullmatch(tables["emailRegex"].replace("(?:", "(?:"), email_ph):
        viol.append({"site": "constant", "detail": "e-mail placeholder is not e-mail shaped"})
    dist = collections.Counter()
    checked = 0
    for (cs, c), r in zip(pairs, res):
        t = out_text(r)
        if t is None:
            continue
        try:
            o = parse_json(t)
        except Exception:
            continue
        for p, leaf in leaves(cs.tree):
            exp = None
            role = None
            if isinstance(leaf, str) and not isinstance(leaf, Num):
                if cs.roles.get(leaf) in ("D", "O", "X"):
                    role = cs.roles[leaf]
                    exp = {"D": tables["RedactedISODate"], "O": tables["RedactedObjectId"], "X": tables["RedactedUUID"]}[role]
                else:
                    ms = [m.group(0) for m in TOK.finditer(leaf) if cs.roles.get(m.group(0)) in ("S", "E")]
                    if ms:
                        role = cs.roles[ms[0]]
                        exp = email_ph if role == "E" else c.repl
            elif isinstance(leaf, Num) and c.n and any(cs.roles.get(k) == "N" and k in str(leaf) for k in cs.roles):
                role, exp = "N", Num("0")
            if exp is None:
                continue
            got = get_path(o, p)
            checked += 1
            dist[role] += 1
            if got != exp or type(got) != type(exp):
                if got == leaf and leak_site(p) == MLT_SITE:
                    # the literal is not replaced at all: the recorded defect of C01 (same call site), not a wrong placeholder
                    viol.append({"site": "class:kept:" + MLT_SITE, "detail": "leaf of class %s kept as it is (%r)" % (role, got), "cfg": c.s(), "cli_flags": c.cli(), "input": cs.text, "output": t})
                    continue
                viol.append({"site": "class:%s:%s" % (role, site_of(p)), "detail": "leaf of class %s became %r, expected %r" % (role, got, exp), "cfg": c.s(), "cli_flags": c.cli(), "input": cs.text, "output": t})
            if role == "X":
                st_in, st_out = get_path(cs.tree, p[:-1] + ("subType",)), get_path(o, p[:-1] + ("subType",))
                if st_in != st_out:
                    viol.append({"site": "class:subType:" + site_of(p), "detail": "subType %r became %r" % (st_in, st_out), "cfg": c.s(), "input": cs.text, "output": t})
    return result(viol, len(pairs), checked, "every role-annotated sensitive leaf of grammar lines compared with the placeholder of its own class (date/oid/base64/e-mail/string/number) under replacement strings with quotes, backslashes, non-ASCII, empty; distinct_nontrivial = leaves compared",
                  dist, [pairs[0][0].text[:300]] if pairs else [])


# ------------------------------------------------------------------------------------------- C07

def hostile_lines(tables, seed, n):
    rng = SplitMix(seed ^ 0x7)
    g = G(rng.fork())
    good = to_json(g.line())
    out = list(malformed(rng, good))
    # wrong kinds under every wrapper / table key
    for tname, path, vk, val in sweep_cases(tables):
        if vk in ("badwrap", "null", "num", "earr"):
            for kind, tree in wrap_positions(tname, path, val)[:2]:
                key = "filter" if kind == "query" else "pipeline"
                v = tree if kind == "query" else [tree]
                out.append(to_json(Obj([("c", "COMMAND"), ("attr", Obj([("ns", "a.b"), ("command", Obj([(key, v)]))]))])).encode())
    # arrays mixing strings, documents, numbers, nulls and arrays under every table key (a list where the code expects
    # strings only / documents only)
    mixed = ["s1", Obj([("value", "v"), ("multi", "m")]), Num("7"), None, ["x"], True, Obj([("wildcard", "w*")])]
    for tname, path, vk, val in sweep_cases(tables):
        if vk == "earr":
            for kind, tree in wrap_positions(tname, path, mixed)[:3]:
                key = "filter" if kind == "query" else "pipeline"
                v = tree if kind == "query" else [tree]
                out.append(to_json(Obj([("c", "COMMAND"), ("attr", Obj([("ns", "a.b"), ("command", Obj([(key, v)]))]))])).encode())
    # plan summaries of every odd shape (they are rewritten under --redactFieldNames): entries without a colon, empty entries,
    # several colons, unbalanced braces, non-string values
    for plan in ['"IXSCAN { foo }"', '"IXSCAN { foo: 1, }"', '"IXSCAN { , }"', '"IXSCAN { : }"', '"IXSCAN { a:b:c }"', '"IXSCAN {"', '"IXSCAN }"', '"IXSCAN { a: 1"', '"IXSCAN {}"', '"IXSCAN { }"',
                 '"IXSCAN { a: 1 } }"', '"IXSCAN { { a: 1 } }"', '"IXSCAN"', '""', '" "', '"IXSCAN { a: }"', '"IXSCAN { : 1 }"', '"IXSCAN { a 1 }"', '"IXSCAN { a: 1,, b: 1 }"', '"{ a: 1 }"',
                 '"IXSCAN { \\u0000: 1 }"', '"IXSCAN { a: 1 }, IXSCAN { b }"', '5', 'null', '[]', '{}', '["IXSCAN { a: 1 }"]', '{"IXSCAN":{"a":1}}', 'true']:
        out.append(('{"c":"COMMAND","msg":"Slow query","attr":{"ns":"a.b","command":{"find":"b","filter":{"a":1}},"planSummary":%s}}' % plan).encode())
    for w in ("$date", "$oid"):
        for v in ("1", "null", "true", "[]", "{}", '{"$numberLong":"1"}', '["x"]'):
            out.append(('{"c":"QUERY","attr":{"command":{"filter":{"a":{"%s":%s}},"pipeline":[{"$match":{"a":{"%s":%s}}},{"$search":{"equals":{"path":"p","value":{"%s":%s}}}}]}}}' % (w, v, w, v, w, v)).encode())
    for v in ("1", "null", "[]", "{}", '{"base64":1}', '{"base64":null,"subType":5}', '{"base64":["x"]}'):
        out.append(('{"msg":"Slow query","attr":{"command":{"filter":{"a":{"$binary":%s}},"pipeline":[{"$match":{"a":{"$binary":%s}}}]}}}' % (v, v)).encode())
    for d in (100, 2000, 20000):
        out.append(b'{"c":"COMMAND","attr":{"command":{"filter":' + b'{"a":' * d + b"1" + b"}" * d + b"}}}")
        out.append(b'{"c":"COMMAND","attr":{"command":{"pipeline":[' + b"[" * d + b"]" * d + b"]}}}")
        out.append(b'{"c":"COMMAND","attr":{"command":{"pipeline":[{"$match":' + b'{"$and":[' * d + b"]}" * d + b"}]}}}")
    rng2 = SplitMix(seed ^ 0x77)
    while len(out) < n:
        out.extend(malformed(rng2, to_json(G(rng2.fork(), exotic=True).line())))
    return out


def oracle_c07(tables, seed, tier, deep):
    big = tier == "thorough" or deep
    lines = hostile_lines(tables, seed, 6000 if big else 1500)
    cfgs = [Cfg(), Cfg(n=True, b=True, i=True, w=True), Cfg(eager=("",), w=True), Cfg(re="^(a|fld)$"), Cfg(enc=3), Cfg(enc=2, n=True)]
    ops = []
    for i, b in enumerate(lines):
        for j in range(2):
            c = cfgs[(i + j) % len(cfgs)]
            ops.append(("%d.%d" % (i, j), ["line", c.s(), hx(b)], b, c))
        if b'"planSummary"' in b or b'"remote"' in b:
            # attributes that only some flags touch: under those flags too
            for j, c in enumerate([Cfg(eager=("",)), Cfg(eager=("a",), i=True, w=True)]):
                ops.append(("%d.p%d" % (i, j), ["line", c.s(), hx(b)], b, c))
    res = go_exec([(o[0], o[1]) for o in ops])
    viol = []
    dist = collections.Counter()
    for oid, f, b, c in ops:
        r = res.get(oid, "noanswer")
        dist[r.split(" ")[0]] += 1
        if r.startswith("panic") or r.startswith("crash") or r == "noanswer":
            msg = unhx(r.split(" ", 1)[1]) if " " in r else r
            viol.append({"site": "panic:" + pyre.sub(r"0x[0-9a-f]+|\d+", "N", msg)[:80], "detail": msg[:300], "cfg": c.s(), "cli_flags": c.cli(), "input_hex": hx(b), "input": b[:300].decode("utf-8", "replace")})
        elif r.startswith("ok "):
            t = unhxb(r[3:])
            if b"\n" in t:
                viol.append({"site": "newline", "detail": "output line contains a newline", "cfg": c.s(), "input_hex": hx(b)})
            else:
                try:
                    try:
                        parse_json(t.decode("utf-8"))
                    except RecursionError:
                        if not json_wellformed(t.decode("utf-8")):
                            raise ValueError("not well-formed (iterative check)")
                except Exception as e:
                    viol.append({"site": "illformed", "detail": "output is not well-formed JSON: %s" % e, "cfg": c.s(), "input_hex": hx(b), "output": t[:300].decode("utf-8", "replace")})
    # the other lines of a multi-line input are processed as usual
    rng = SplitMix(seed ^ 0x707)
    good = [to_json(G(rng.fork()).line()).encode() for _ in range(3)]
    alone = go_exec([(str(i), ["line", Cfg().s(), hx(g)]) for i, g in enumerate(good)])
    exp_good = [unhxb(alone[str(i)][3:]) + b"\n" for i in range(3)]
    sops = []
    sample = lines[:: max(1, len(lines) // (400 if big else 80))]
    # an object cut exactly where a value, a member or an element is expected (after ':', '[', ',' and '{'): the text that follows
    # on the NEXT lines would complete it - a reader that joins lines must not swallow them
    src = good[1]
    cuts = [j + 1 for j, ch in enumerate(src) if ch in b":[,{"]
    sample = sample + [src[:j] for j in cuts[:: max(1, len(cuts) // (60 if big else 24))]] + [b'{"attr":', b'{"a":[', b'{"a":[1,', b'{"a":{"b":1,', b'{', b'[', b'{"a":"x']
    for i, b in enumerate(sample):
        if b"\n" in b or b"\r" in b:
            continue
        data = good[0] + b"\n" + good[1] + b"\n" + b + b"\n" + good[2] + b"\n"
        sops.append((str(i), ["stream", Cfg().s(), "-", hx(data)], b))
    sres = go_exec([(o[0], o[1]) for o in sops])
    lone = go_exec([(o[0], ["line", Cfg().s(), hx(o[2])]) for o in sops])
    for oid, f, b in sops:
        r = sres.get(oid, "noanswer")
        parts = r.split(" ")
        mid = lone.get(oid, "")
        mid_out = (unhxb(mid[3:]) + b"\n") if mid.startswith("ok ") else b""
        if len(b) > 65535:
            ok = parts[0] == "toolong" and unhxb(parts[1]) == exp_good[0] + exp_good[1]
        else:
            ok = parts[0] == "ok" and unhxb(parts[1]) == exp_good[0] + exp_good[1] + mid_out + exp_good[2]
        dist["stream-" + parts[0]] += 1
        if not ok:
            viol.append({"site": "stream:" + parts[0], "detail": "multi-line run with the hostile line at position 3 did not process the other lines as usual", "input_hex": hx(b), "status": r[:60]})
    # whole program: a plain log (file argument without .gz, and stdin) whose FIRST line is binary junk starting with the gzip
    # magic bytes: that line is skipped like any other non-JSON line, the others are processed as usual
    import tempfile, shutil
    wd = tempfile.mkdtemp(prefix="verif_c07_")
    try:
        for junk in (b"\x1f\x8b\x08\x00 not really gzip", b"\x1f\x8b"):
            blob = junk + b"\n" + good[0] + b"\n" + good[2] + b"\n"
            fp = os.path.join(wd, "plain.log")
            open(fp, "wb").write(blob)
            for how, (rc, so, se) in (("file", run_cli(["redact", fp], cwd=wd)), ("stdin", run_cli(["redact"], stdin=blob, cwd=wd))):
                dist["cli-gzip-magic-first-line:%s:%d" % (how, rc)] += 1
                if rc != 0 or so != exp_good[0] + exp_good[2]:
                    viol.append({"site": "crash:gzip-magic-first-line:" + how, "detail": "a plain log (%s) whose first line starts with 1f 8b: exit %d, %d bytes of output (expected the two good lines), stderr %r" % (how, rc, len(so), se[-150:]),
                                 "input_hex": hx(blob[:200]), "cfg": "-"})
    finally:
        shutil.rmtree(wd, ignore_errors=True)
    # whole program: a line far beyond the reader's limit (millions of nesting levels) between two good lines:
    # the only allowed outcome is the explicit error with a non-zero status after the first line - never a crash
    deep_line = b"[" * 6000000
    rc, so, se = run_cli(["redact"], stdin=good[0] + b"\n" + deep_line + b"\n" + good[2] + b"\n", timeout=300)
    dist["cli-deep-line-exit%d" % rc] += 1
    if b"panic" in se or b"fatal error" in se or b"goroutine " in se or rc not in (0, 1):
        viol.append({"site": "crash:deep-line", "detail": "a line of 6,000,000 '[' crashed the run (exit %d): %s" % (rc, se[:200].decode("utf-8", "replace")), "input": "good line; '[' x 6000000; good line", "cfg": "-"})
    elif rc == 0:
        if so != exp_good[0] + exp_good[2]:
            viol.append({"site": "deep-line:exit0", "detail": "exit 0 but the other lines were not processed as usual", "input": "good line; '[' x 6000000; good line", "cfg": "-"})
    elif so != exp_good[0] or not se.strip():
        viol.append({"site": "deep-line:exit1", "detail": "explicit stop expected: first line emitted, message on stderr; got %d bytes of output, stderr %r" % (len(so), se[:100]), "input": "good line; '[' x 6000000; good line", "cfg": "-"})
    return result(viol, len(ops) + len(sops), len(set(lines)), "hostile byte strings: every JSON token class first, truncations and byte flips of real lines, trailing garbage, legacy text lines, invalid UTF-8, lone surrogates, wrong value kinds under $date/$oid/$binary and under every table key, nesting depth up to 20000; each alone (6 flag sets incl. eager/selective/encrypt) and inside a 4-line stream",
                  dist, [lines[5][:100].decode("utf-8", "replace")])


def cfg_of_string(cs):
    """Cfg object of a configuration string of the line protocol (for replaying an operation through the real CLI)"""
    c = Cfg()
    if cs == "-":
        return c
    for kv in cs.split(";"):
        k, _, v = kv.partition("=")
        if k == "r":
            c.repl = unhx(v)
        elif k in ("n", "b", "i", "w"):
            setattr(c, k, v == "1")
        elif k == "e":
            c.eager = tuple(unhx(x[1:]) for x in v.split(":") if x)
        elif k == "z":
            c.re = unhx(v) if v else None
        elif k == "y":
            c.enc = int(v)
    return c


def panics_of_correspondence(diffs):
    """C07: an operation of the correspondence on which the real code panicked (recovered by the harness) is itself a
    line content that crashes a run.  Each is turned into a whole log line and confirmed through the real CLI
    (exit status 2 / a Go panic on stderr)."""
    viol = []
    seen = set()
    for fam, f, goans, modelans in diffs:
        if not (isinstance(goans, str) and (goans.startswith("panic") or goans.startswith("crash"))):
            continue
        try:
            c = cfg_of_string(f[1])
            if f[0] == "line":
                b = unhxb(f[2])
            elif f[0] == "planredact":
                c.eager = ("d",)
                b = to_json(Obj([("c", "COMMAND"), ("msg", "Slow query"), ("attr", Obj([("ns", "d.c"), ("command", Obj([("find", "c"), ("filter", Obj([("a", Num("1"))])), ("$db", "d")])), ("planSummary", unhx(f[2]))]))])).encode()
            elif f[0] in ("stage", "query", "cmd"):
                tree = dec(f[3])
                if f[3 - 1] == "1" and not c.eager:
                    c.eager = ("d",)
                cmd = {"stage": lambda t: Obj([("aggregate", "c"), ("pipeline", [t]), ("$db", "d")]),
                       "query": lambda t: Obj([("find", "c"), ("filter", t), ("$db", "d")]),
                       "cmd": lambda t: t}[f[0]](tree)
                b = to_json(Obj([("c", "COMMAND"), ("msg", "Slow query"), ("attr", Obj([("ns", "d.c"), ("command", cmd)]))])).encode()
            else:
                continue
        except Exception:
            continue
        if c.enc:
            continue
        msg = unhx(goans.split(" ", 1)[1]) if " " in goans else goans
        site = "panic:" + pyre.sub(r"0x[0-9a-f]+|\d+", "N", msg)[:80]
        if site in seen:
            continue
        rc, so, se = run_cli(["redact"] + c.cli(), stdin=b + b"\n", timeout=120)
        if rc not in (0, 1) or b"panic" in se or b"goroutine " in se:
            seen.add(site)
            viol.append({"site": site, "detail": "the real CLI crashed on this line (exit %d): %s" % (rc, se[:300].decode("utf-8", "replace")), "cfg": c.s(), "cli_flags": c.cli(),
                         "input_hex": hx(b), "input": b[:600].decode("utf-8", "replace"), "found_by": "correspondence family " + fam})
    return viol


# ------------------------------------------------------------------------------------------- C19

def oracle_c19(tables, seed, tier, deep):
    n = 1500 if (tier == "thorough" or deep) else 200
    cases = grammar_cases(seed ^ 0x19, n) + misc_cases(tables, seed ^ 0x19, n // 2)
    cfgs = [Cfg(), Cfg(n=True), Cfg(b=True), Cfg(n=True, b=True, i=True), Cfg(repl='X"y\\z é'), Cfg(repl=""), Cfg(repl="$r", n=True), Cfg(repl="0", i=True),
            Cfg(repl="ask admin@corp.example for access"), Cfg(repl="mailto:a@b.example", n=True), Cfg(repl="QUJD"), Cfg(repl="1970-01-01T00:00:00.000Z", b=True)]
    pairs = [(cs, cfgs[i % len(cfgs)]) for i, cs in enumerate(cases)]
    r1 = run_lines(pairs)
    second = []
    idx = []
    for k, ((cs, c), r) in enumerate(zip(pairs, r1)):
        t = out_text(r)
        if t is not None:
            cs2 = Case.__new__(Case)
            cs2.text = t
            second.append((cs2, c))
            idx.append(k)
    r2 = run_lines(second)
    viol = []
    for k, (cs2, c), r in zip(idx, second, r2):
        t2 = out_text(r)
        if t2 != cs2.text:
            a, b = cs2.text, t2 or r
            j = next((j for j in range(min(len(a), len(b))) if a[j] != b[j]), min(len(a), len(b)))
            viol.append({"site": "notfixed", "detail": "second pass differs at byte %d: %r vs %r" % (j, a[max(0, j - 60):j + 60], b[max(0, j - 60):j + 60]), "cfg": c.s(), "cli_flags": c.cli(), "input": pairs[k][0].text})
    # whole FILES through the stream reader, twice: files that hold entries differing only in their secrets (their redactions are
    # identical lines), the same entry several times, blank lines in between
    rng = SplitMix(seed ^ 0x1919)
    sops = []
    for gi in range(12 if (tier == "thorough" or deep) else 4):
        c = cfgs[gi % 4]
        chunk = [cs for cs in cases[gi * 7: gi * 7 + 5] if "\n" not in cs.text]
        lines = []
        for cs in chunk:
            lines.append(cs.text.encode("utf-8"))
            if cs.roles:
                lines.append(to_json(reassign(cs.tree, cs.roles, rng, c)).encode("utf-8"))
            if rng.chance(1, 3):
                lines.append(lines[-1])
        lines = [l for l in lines if b"\n" not in l and len(l) < 20000]
        if lines:
            sops.append((gi, c, b"\n".join(lines) + b"\n"))
    # the same files WITHOUT a final newline, ending in an entry of another component that holds addresses outside attr.remote, with
    # --redactIPs: the last entry goes through the code behind the scan loop, and the tool's own output always ends in a newline
    extra_last = b'{"t":{"$date":"2024-05-01T12:00:00.000+00:00"},"s":"I","c":"NETWORK","id":22943,"ctx":"listener","msg":"Connection accepted","attr":{"remote":"10.9.8.7:55555","client":"peer 10.1.2.3:4567","hostAndPort":"192.168.7.7:27017"}}'
    for gi, c, data in list(sops):
        sops.append((100 + gi, Cfg(n=True, b=True, i=True), data + extra_last))
    p1 = go_exec([("f%d" % gi, ["stream", c.s(), "-", hx(data)]) for gi, c, data in sops])
    second_in = {}
    for gi, c, data in sops:
        r = p1.get("f%d" % gi, "noanswer").split(" ")
        if r[0] == "ok":
            second_in[gi] = unhxb(r[1])
    p2 = go_exec([("g%d" % gi, ["stream", c.s(), "-", hx(second_in[gi])]) for gi, c, data in sops if gi in second_in])
    for gi, c, data in sops:
        if gi not in second_in:
            continue
        r = p2.get("g%d" % gi, "noanswer").split(" ")
        out2 = unhxb(r[1]) if r[0] == "ok" else None
        if out2 != second_in[gi]:
            viol.append({"site": "notfixed:file", "detail": "second pass over a whole file: %d lines after the first pass, %s after the second" % (second_in[gi].count(b"\n"), "error" if out2 is None else "%d lines" % out2.count(b"\n")),
                         "cfg": c.s(), "cli_flags": c.cli(), "input_hex": hx(data)})
    return result(viol, len(pairs) + len(second) + 2 * len(sops), len(second), "redact(redact(x)) == redact(x) byte for byte on grammar lines, other-component lines and arbitrary operator trees, value-redaction flags only; distinct_nontrivial = lines that produced output and were fed back",
                  {}, [pairs[0][0].text[:300]] if pairs else [])


# ------------------------------------------------------------------------------------------- plumbing

def result(viol, evaluations, distinct, rule, dist, samples):
    # one violation per site is enough for the report; keep the shortest input per site
    by_site = {}
    for v in viol:
        s = v["site"]
        if s not in by_site or len(v.get("input", "") or v.get("input_hex", "")) < len(by_site[s].get("input", "") or by_site[s].get("input_hex", "")):
            by_site[s] = v
    return {"violations": list(by_site.values()),
            "stats": {"evaluations": evaluations, "distinct_nontrivial": distinct, "rule": rule, "distribution": dict(dist),
                      "summary": {"evaluations": evaluations, "violating_sites": len(by_site), "violations": len(viol)}},
            "samples": samples}


ORACLES = {"C01": oracle_c01, "C02": oracle_c02, "C03": oracle_c03, "C05": oracle_c05, "C07": oracle_c07, "C19": oracle_c19}


def run(pid, tables, seed, tier, deep=False):
    fn = ORACLES.get(pid)
    if fn is None:
        return {"violations": [], "stats": {"evaluations": 0, "distinct_nontrivial": 0, "rule": "no implementation-side oracle yet", "summary": {}}, "samples": []}
    return fn(tables, seed, tier, deep)


def replay(pid, r):
    """re-run one recorded oracle violation on the freshly built binary"""
    out = {}
    if pid == "C18" and "bits" in r:
        import fakeatlas, tempfile, shutil
        fake = fakeatlas.Fake(fakeatlas.Scenario(["h1.example.net:27017"], [fakeatlas.gz(b'{"a":1}\n')]))
        work = tempfile.mkdtemp(prefix="verif_c18_")
        try:
            f, rc, so, se, created = run_cli_combo(r["bits"], fake.url, work)
        finally:
            fake.close()
            shutil.rmtree(work, ignore_errors=True)
        wd = spec_well_defined(f)
        out = {"flags": [n for n in FLAG_NAMES if f[n]], "well_defined_by_rule_table": wd, "exit": rc, "files_created": created, "requests": len(fake.log), "stderr": se.decode("utf-8", "replace")[-300:]}
        out["violation"] = (wd and rc != 0) or (not wd and (rc == 0 or bool(created) or len(fake.log) > 0))
        return out
    if "soak_n" in r:
        res = go_exec([("s", ["soak", r["cfg"], str(r["soak_n"])])], timeout=1800).get("s", "noanswer")
        return {"soak": res[:300], "violation": not res.startswith("ok ")}
    if "multifile_hex" in r:
        i = r["multifile_index"]
        ses = go_exec([("f", ["files", r["cfg"], r["multifile_kinds"]] + r["multifile_hex"])]).get("f", "noanswer").split(" ")
        alone = go_exec([("f", ["files", r["cfg"], r["multifile_kinds"][i], r["multifile_hex"][i]])]).get("f", "noanswer")
        return {"in_session": (ses[i] if i < len(ses) else "noanswer")[:600], "alone": alone[:600], "violation": (ses[i] if i < len(ses) else None) != alone}
    if "accum_shapes_hex" in r:
        ops = []
        for i, h_ in enumerate(r["accum_shapes_hex"]):
            ops += [("s%d.%d" % (i, k), ["line", r["cfg"], h_]) for k in range(r["accum_repeats"])]
        ops.append(("x", ["line", r["cfg"], hx(r["input"])]))
        ses = go_exec(ops, timeout=1800).get("x", "noanswer")
        alone = go_exec([("x", ["line", r["cfg"], hx(r["input"])])]).get("x", "noanswer")
        return {"in_session": out_text(ses) or ses[:300], "alone": out_text(alone) or alone[:300], "violation": ses != alone}
    if "session_before_hex" in r:
        ops = [("b%d" % i, ["line", r["cfg"], h]) for i, h in enumerate(r["session_before_hex"])] + [("x", ["line", r["cfg"], hx(r["input"])])]
        ses = go_exec(ops).get("x", "noanswer")
        alone = go_exec([("x", ["line", r["cfg"], hx(r["input"])])]).get("x", "noanswer")
        out = {"in_session": out_text(ses) or ses[:300], "alone": out_text(alone) or alone[:300], "violation": ses != alone,
               "note": "only the last 40 lines of the history are recorded; a violation that needs a longer history re-runs through the check itself"}
        return out
    if "input" in r or "input_hex" in r:
        b = unhxb(r["input_hex"]) if "input_hex" in r else r["input"].encode()
        res = go_exec([("r", ["line", r.get("cfg", "-"), hx(b)])])["r"]
        out["go_line"] = out_text(res) if res.startswith("ok ") else res[:300]
        tok = r.get("token")
        if tok:
            out["violation"] = bool(out_text(res) and tok in out_text(res))
        elif res.startswith("panic") or res.startswith("crash"):
            out["violation"] = True
        if r.get("cli_flags") is not None and b"\n" not in b:
            rc, so, se = run_cli(["redact"] + r["cli_flags"], stdin=b + b"\n")
            out["cli_exit"] = rc
            out["cli_stdout"] = so.decode("utf-8", "replace")[:2000]
            out["cli_stderr"] = se.decode("utf-8", "replace")[-600:]
            if tok:
                out["violation"] = out.get("violation") or tok in out["cli_stdout"]
            if rc == 2 and "panic" in out["cli_stderr"]:
                out["violation"] = True
    return out


# ------------------------------------------------------------------------------------------- C18 (whole program)

FLAG_NAMES = ["file", "stdin", "out", "encrypt", "regexp", "fieldNames", "project", "cluster", "pub", "priv", "start", "end", "env"]


def spec_well_defined(f):
    """rule table written from README 2.1 / the property text (python copy of Spec/CliRules.lean)"""
    atlas = f["project"] or f["cluster"] or f["pub"] or f["priv"] or f["start"] or f["end"]
    if f["file"] + f["stdin"] + atlas != 1:
        return False
    if atlas and not (f["project"] and f["cluster"] and f["out"] and (f["pub"] or f["env"]) and (f["priv"] or f["env"])):
        return False
    if f["start"] != f["end"]:
        return False
    if f["encrypt"] and (f["stdin"] or not f["out"]):
        return False
    if f["regexp"] and f["fieldNames"]:
        return False
    return True


def run_cli_combo(bits, fake_url, workdir, file_arg=None):
    import shutil, tempfile, zlib
    forced_kind = None
    if "/" in bits:
        bits, fk = bits.split("/")
        forced_kind = int(fk)
    f = dict(zip(FLAG_NAMES, [b == "1" for b in bits]))
    d = tempfile.mkdtemp(prefix="c18_", dir=workdir)
    inp = os.path.join(d, "in.log")
    with open(inp, "w") as fh:
        fh.write('{"t":{"$date":"2024-01-01T00:00:00.000+00:00"},"s":"I","c":"COMMAND","id":1,"ctx":"c","msg":"Slow query","attr":{"ns":"db.c","command":{"find":"c","filter":{"a":"secretvalue"}}}}\n')
    scratch = os.path.join(d, "w")
    os.mkdir(scratch)
    args = ["redact"]
    if f["file"]:
        args.append(inp if file_arg is None else file_arg)
    if f["out"]:
        args += ["-o", os.path.join(scratch, "out.log")]
    if f["encrypt"]:
        args += ["--encrypt"]
    args += ["--encryptionKeyFile", os.path.join(scratch, "key.enc")]
    if f["regexp"]:
        args += ["--redactFieldsRegexp", "^a$"]
    if f["fieldNames"]:
        args += ["--redactFieldNames", "db.c"]
    if f["project"]:
        args += ["--atlasProjectId", "proj1"]
    if f["cluster"]:
        args += ["--atlasClusterName", "clu1"]
    if f["pub"]:
        args += ["--atlasPublicKey", "pubkey"]
    if f["priv"]:
        args += ["--atlasPrivateKey", "privkey"]
    if f["start"]:
        args += ["--atlasLogStartDate", "1700000000"]
    if f["end"]:
        args += ["--atlasLogEndDate", "1700003600"]
    env = {"VERIF_ATLAS_ENDPOINT": fake_url, "TMPDIR": os.path.join(d, "w")}
    env["ATLAS_PUBLIC_KEY"] = "pubkey" if f["env"] else ""
    env["ATLAS_PRIVATE_KEY"] = "privkey" if f["env"] else ""
    # "stdin is an input source" = stdin is not a terminal-like device: a pipe with data, a redirected regular file, an EMPTY
    # redirected regular file (a just-rotated log) and an empty pipe all count
    stdin = None
    if f["stdin"]:
        kind = forced_kind if forced_kind is not None else zlib.crc32(bits.encode()) % 4
        empty = os.path.join(d, "empty.log")
        open(empty, "wb").close()
        stdin = [open(inp, "rb").read(), ("file", inp), ("file", empty), b""][kind]
    # for half of the jobs that name an output file, that file already EXISTS (an earlier run's output): a rejected job may neither
    # remove nor change it
    stale = None
    if f["out"] and zlib.crc32((bits + "stale").encode()) % 2 == 0:
        stale = b'{"earlier":"run"}\n' * 7
        with open(os.path.join(scratch, "out.log"), "wb") as fh:
            fh.write(stale)
    rc, so, se = run_cli(args, stdin=stdin, env=env, cwd=scratch, timeout=60)
    created = sorted(os.listdir(scratch))
    if stale is not None:
        op_ = os.path.join(scratch, "out.log")
        if not os.path.exists(op_):
            created.append("out.log:pre-existing-file-REMOVED")
        elif open(op_, "rb").read() == stale:
            created.remove("out.log")
    shutil.rmtree(d, ignore_errors=True)
    return f, rc, so, se, created


def bx_eval(b, f):
    o = b["op"]
    if o == "atom":
        return bool(f["end" if b["name"] == "end_" else b["name"]])
    if o == "not":
        return not bx_eval(b["a"], f)
    if o == "and":
        return bx_eval(b["a"], f) and bx_eval(b["b"], f)
    if o == "or":
        return bx_eval(b["a"], f) or bx_eval(b["b"], f)
    return o == "true"


def chain_suspects():
    """valuations of the 13 presence facts on which the REGENERATED validation chain of main.go disagrees with the rule table"""
    try:
        d = json.load(open(os.path.join(BUILD, "srcfacts.json")))
        rules = d.get("validation") or []
    except Exception:
        return []
    out = []
    for i in range(8192):
        b = format(i, "013b")
        f = dict(zip(FLAG_NAMES, [c == "1" for c in b]))
        rejected = any(bx_eval(r["cond"], f) for r in rules)
        if (not rejected) != spec_well_defined(f):
            out.append(b)
    return out


def oracle_c18(tables, seed, tier, deep):
    import fakeatlas, tempfile, shutil
    from concurrent.futures import ThreadPoolExecutor
    big = tier == "thorough" or deep
    rng = SplitMix(seed ^ 0x18)
    combos = set()
    if big:
        combos = set(format(i, "013b") for i in range(8192))
    else:
        # every combination adjacent to a rule boundary of a well-defined job + a seeded sample
        for i in range(8192):
            b = format(i, "013b")
            f = dict(zip(FLAG_NAMES, [c == "1" for c in b]))
            if spec_well_defined(f) and rng.chance(1, 3):
                combos.add(b)
                for k in range(13):
                    if rng.chance(1, 4):
                        combos.add(b[:k] + ("0" if b[k] == "1" else "1") + b[k + 1:])
        while len(combos) < 700:
            combos.add(format(rng.below(8192), "013b"))
    # SUSPECTS synthesised from the regenerated validation chain (build/srcfacts.json, tools/extract): every valuation on which
    # what main.go's chain says NOW differs from the rule table is run through the real CLI first - so that a broken
    # C18_source_exact obligation comes with its failing input
    suspects = chain_suspects()
    combos |= set(suspects[:400])
    combos = sorted(combos, key=lambda b: (b not in suspects, b))
    # every kind of stdin for the jobs around "stdin is the input": alone, with an output file, together with a file argument, together with Atlas parameters
    def bitsof(**kw):
        return "".join("1" if kw.get(nm) else "0" for nm in FLAG_NAMES)
    for kind in range(4):
        for kw in (dict(stdin=1), dict(stdin=1, out=1), dict(stdin=1, file=1), dict(stdin=1, file=1, out=1), dict(stdin=1, regexp=1),
                   dict(stdin=1, project=1, cluster=1, out=1, pub=1, priv=1), dict(stdin=1, encrypt=1, out=1)):
            combos.append("%s/%d" % (bitsof(**kw), kind))
    payload = fakeatlas.gz(b'{"t":{"$date":"2024-01-01T00:00:00.000+00:00"},"s":"I","c":"COMMAND","id":1,"ctx":"c","msg":"Slow query","attr":{"ns":"db.c","command":{"find":"c","filter":{"a":"atlassecret"}}}}\n')
    fake = fakeatlas.Fake(fakeatlas.Scenario(["h1.example.net:27017"], [payload]))
    work = tempfile.mkdtemp(prefix="verif_c18_")
    viol = []
    dist = collections.Counter()
    model = lean_exec([(b, ["validate", b.split("/")[0]]) for b in combos])
    file_probe = None
    try:
        def one(b):
            before = len(fake.log)
            return b, run_cli_combo(b, fake.url, work)
        # requests are attributed per run, so runs that may talk to the fake are serialised
        results = []
        par = [b for b in combos if not (b[6] == "1" and b[7] == "1")]
        ser = [b for b in combos if b[6] == "1" and b[7] == "1"]
        stdin_kinds = ["a pipe with data", "a redirected file", "an EMPTY redirected file", "an empty pipe"]
        with ThreadPoolExecutor(max_workers=12) as ex:
            results += list(ex.map(one, par))
        for b in ser:
            n0 = len(fake.log)
            r = one(b)
            results.append((b, r[1] + (len(fake.log) - n0,)))
        for b, r in results:
            f, rc, so, se, created = r[:5]
            nreq = r[5] if len(r) > 5 else 0
            wd = spec_well_defined(f)
            dist["well-defined" if wd else "ill-defined"] += 1
            flags = [n for n in FLAG_NAMES if f[n]]
            site = None
            if wd and rc != 0:
                site, detail = "rejects-well-defined", "a well-defined job ended with exit status %d: %s" % (rc, se.decode("utf-8", "replace")[-200:])
            elif not wd:
                if rc == 0:
                    site, detail = "accepts-ill-defined", "an ill-defined job ran and exited 0"
                elif created:
                    site, detail = "side-effect:files", "rejected job created %s" % created
                elif nreq:
                    site, detail = "side-effect:network", "rejected job sent %d request(s)" % nreq
                elif not se.strip():
                    site, detail = "silent", "rejected job printed no explanation"
            if site:
                if "/" in b:
                    detail += " (stdin is %s)" % stdin_kinds[int(b.split("/")[1])]
                viol.append({"site": "cli:" + site + ":" + "+".join(flags), "detail": detail, "bits": b, "flags": flags, "input": b})
            md = model.get(b, "")
            if file_probe is not None:
                pass
            if md and (md.startswith("accept") != (rc == 0)):
                viol.append({"site": "model-vs-cli:" + "+".join(flags), "detail": "model says %r, the CLI exited %d" % (md, rc), "bits": b, "flags": flags, "input": b, "correspondence": True})
        # a file argument that is PRESENT but names nothing: the empty string must be treated like any other name of a file that
        # does not exist (same accept / reject decision, same files created) - not as "no file argument"
        for kw in (dict(file=1), dict(file=1, out=1), dict(file=1, stdin=1), dict(file=1, stdin=1, out=1), dict(file=1, project=1, cluster=1, out=1, pub=1, priv=1),
                   dict(file=1, stdin=1, encrypt=1, out=1), dict(file=1, encrypt=1, out=1)):
            b = bitsof(**kw) + "/0"
            r_empty = run_cli_combo(b, fake.url, work, file_arg="")
            r_missing = run_cli_combo(b, fake.url, work, file_arg="zq-no-such-file.log")
            dist["empty-file-argument"] += 1
            if (r_empty[1] == 0) != (r_missing[1] == 0) or r_empty[4] != r_missing[4]:
                flags = [n_ for n_ in FLAG_NAMES if kw.get(n_)]
                viol.append({"site": "cli:empty-file-argument:" + "+".join(flags), "detail": "file argument \"\": exit %d, created %r; a missing file named otherwise: exit %d, created %r" % (r_empty[1], r_empty[4], r_missing[1], r_missing[4]),
                             "flags": flags, "input": "redact \"\" " + " ".join(flags)})
    finally:
        fake.close()
        shutil.rmtree(work, ignore_errors=True)
    res = result(viol, len(combos), len(combos), "real CLI started once per presence/absence combination of the 13 facts (scratch directory, fake Atlas endpoint; stdin = /dev/null, or a pipe with data / a redirected file / an empty redirected file / an empty pipe); exit status, files created, requests received and stderr compared with the rule table; " + ("all 8192 combinations" if big else "seeded sample + every sampled neighbour of a well-defined job"),
                 dist, [{"bits": combos[0], "flags": [n for n, c in zip(FLAG_NAMES, combos[0]) if c == "1"]}])
    if big:
        res["stats"]["exhaustive"] = True
    return res


ORACLES["C18"] = oracle_c18


# ------------------------------------------------------------------------------------------- C13

def oracle_c13(tables, seed, tier, deep):
    import itertools
    big = tier == "thorough" or deep
    rng = SplitMix(seed ^ 0x13)
    alpha = "abcdefghijklmnopqrstuvwxyz0123456789_-$ "  # 40 symbols
    names = [""]
    for L in (1, 2, 3) if big else (1, 2):
        names += ["".join(t) for t in itertools.product(alpha, repeat=L)]
    extra = ["Ünï", "中文", "\U0001F600", "a" * 300, "user.address.zip", "a..b", ".", "$a.$b", "$$x", "system.users", "$cmd", "db.$cmd"]
    # long components that agree on a long prefix (a buffer, a length limit or a truncation would make them collide)
    for L in (63, 64, 119, 120, 127, 128, 129, 255, 256, 1023, 1024, 5000):
        extra += ["p" * L + "x", "p" * L + "y", "db." + "q" * L + "1", "db." + "q" * L + "2", "é" * L + "a", "é" * L + "b"]
    for _ in range(3000 if big else 400):
        extra.append("".join(rng.choice("abcXYZ019_.$-é") for _ in range(1 + rng.below(14))))
    repls = ["REDACTED", "", "r.x_y", "é \"q\"", "50%", "%s", "p%d%%", "%!x(MISSING)"]
    ops = [("n%d" % i, ["hash", Cfg().s(), "s" + hx(n)]) for i, n in enumerate(names)]
    for j, rp in enumerate(repls):
        ops += [("e%d.%d" % (j, i), ["hash", Cfg(repl=rp).s(), "s" + hx(n)]) for i, n in enumerate(extra)]
    r1 = go_exec(ops)
    # a second, separate process with the calls in a different order
    perm = list(ops)
    for i in range(len(perm) - 1, 0, -1):
        j = rng.below(i + 1)
        perm[i], perm[j] = perm[j], perm[i]
    r2 = go_exec(perm)
    viol = []

    def H(oid):
        return unhx(r1[oid][1:])
    if any(r1[o] != r2[o] for o, _ in ops):
        bad = next(o for o, _ in ops if r1[o] != r2[o])
        viol.append({"site": "unstable", "detail": "pseudonym differs between two processes / call orders: %r vs %r" % (r1[bad], r2[bad]), "input": bad})
    # form + depth + dollar + component-wise
    for j, rp in enumerate(repls):
        blk = pyre.compile(pyre.escape(rp) + r"_[0-9a-f]{16}")
        for i, n in enumerate(extra):
            h = H("e%d.%d" % (j, i))
            comps = n.lstrip("$").split(".")
            pos, ok = 0, True
            for ci in range(len(comps)):
                m = blk.match(h, pos)
                if not m:
                    ok = False
                    break
                pos = m.end()
                if ci < len(comps) - 1:
                    if h[pos:pos + 1] != ".":
                        ok = False
                        break
                    pos += 1
            if not ok or pos != len(h):
                viol.append({"site": "form", "detail": "pseudonym %r of %r is not %d blocks '<replacement>_<16 hex>' joined by '.'" % (h, n, len(comps)), "input": n, "cfg": Cfg(repl=rp).s()})
    # value: the pseudonym is the independent computation (16 hex digits of the SHA-256 of the WHOLE component), and
    # distinct names among the generated ones have distinct pseudonyms
    seen_e = {}
    for i, n in enumerate(extra):
        h = H("e0.%d" % i)
        want = py_hash_name("REDACTED", n)
        if h != want and not any(c.startswith("$") for c in n.lstrip("$").split(".")):
            viol.append({"site": "value", "detail": "pseudonym of %r (%d bytes) is %r, the statement's computation gives %r" % (n[:60] + ("…" if len(n) > 60 else ""), len(n.encode("utf-8", "surrogatepass")), h, want), "input": n})
        k = n.lstrip("$")
        if h in seen_e and seen_e[h] != k:
            viol.append({"site": "collision", "detail": "names %r… and %r… (%d / %d characters) share the pseudonym %r" % (seen_e[h][-12:], k[-12:], len(seen_e[h]), len(k), h), "input": n})
        seen_e[h] = k
    idx = {n: i for i, n in enumerate(extra)}
    more = []
    for i, n in enumerate(extra[:200]):
        more.append(("d%d" % i, ["hash", Cfg().s(), "s" + hx("$" + n)]))
        if "." in n.lstrip("$"):
            for k, c in enumerate(n.lstrip("$").split(".")):
                more.append(("c%d.%d" % (i, k), ["hash", Cfg().s(), "s" + hx(c)]))
    r3 = go_exec(more)
    for i, n in enumerate(extra[:200]):
        h = H("e0.%d" % i)
        if unhx(r3["d%d" % i][1:]) != h:
            viol.append({"site": "dollar", "detail": "leading '$' changes the pseudonym of %r" % n, "input": n})
        comps = n.lstrip("$").split(".")
        if len(comps) > 1 and not any(c.startswith("$") for c in comps):
            exp = ".".join(unhx(r3["c%d.%d" % (i, k)][1:]) for k in range(len(comps)))
            if exp != h:
                viol.append({"site": "componentwise", "detail": "P(%r) = %r is not the component-wise composition %r" % (n, h, exp), "input": n})
    # enumeration (not a proof): distinct components -> distinct pseudonyms
    seen = {}
    for i, n in enumerate(names):
        key = n.lstrip("$")
        if "." in key:
            continue
        h = H("n%d" % i)
        if h in seen and seen[h] != key:
            viol.append({"site": "collision", "detail": "components %r and %r share the pseudonym %r" % (seen[h], key, h), "input": n})
        seen[h] = key
    return result(viol, 2 * len(ops) + len(more), len(seen), "HashName through the real function: all strings up to length %d over a 40-symbol alphabet (ENUMERATION of distinctness, not a proof) + generated/Unicode/dotted names x 4 replacement texts; two separate processes with permuted call orders; distinct_nontrivial = distinct components enumerated" % (3 if big else 2),
                  {"names": len(names), "extra": len(extra)}, [{"name": "user.address.zip", "pseudonym": H("e0.%d" % extra.index("user.address.zip"))}])


def many_names(tier, deep):
    viol = []
    # many DISTINCT names in one process, then the first ones again: a pseudonym may not depend on how many other names were
    # seen in between (memo tables, rings, pools); every pseudonym is also checked against the independent computation
    nn = 30000 if (tier == "thorough" or deep) else 3000
    def name_line(i):
        return '{"c":"COMMAND","msg":"Slow query","attr":{"ns":"dbn%d.coln%d","command":{"find":"coln%d","filter":{"fldn%d":1,"sub%d.leaf%d":2},"$db":"dbn%d"},"planSummary":"IXSCAN { fldn%d: 1 }"}}' % (i, i, i, i, i, i, i, i)
    c = Cfg(w=True, eager=("dbn",), enc=(3 if (tier == "thorough" or deep) else 0))
    c = Cfg(w=True, eager=("dbn",)) if not c.enc else c
    order = list(range(nn)) + list(range(0, 120)) + [nn // 2 + k for k in range(60)]
    ops = [("q%d" % j, ["line", c.s(), hx(name_line(i))]) for j, i in enumerate(order)]
    res = go_exec(ops, timeout=1800)
    first = {}
    bad = 0
    for j, i in enumerate(order):
        r = res.get("q%d" % j, "noanswer")
        if i not in first:
            first[i] = r
            if j % 97 == 0 or i < 120:
                t = out_text(r)
                o = parse_json(t) if t else None
                want = py_hash_name("REDACTED", "dbn%d.coln%d" % (i, i))
                if o is None or get_path(o, ("attr", "ns")) != want or get_path(o, ("attr", "command", "filter")).keys() != [py_hash_name("REDACTED", "fldn%d" % i), py_hash_name("REDACTED", "sub%d.leaf%d" % (i, i))]:
                    bad += 1
                    if bad <= 2:
                        viol.append({"site": "visible:many-names", "detail": "after %d distinct names in one process the line for name #%d does not carry the independent pseudonyms" % (j, i), "cfg": c.s(), "cli_flags": c.cli(), "input": name_line(i), "output": t or r[:200]})
        elif r != first[i]:
            bad += 1
            if bad <= 2:
                viol.append({"site": "visible:name-reappears", "detail": "name #%d got one pseudonym at first and another one after %d further lines with other names in the same process" % (i, j), "cfg": c.s(), "cli_flags": c.cli(),
                             "input": name_line(i), "output": (out_text(r) or r)[:400], "first_output": (out_text(first[i]) or first[i])[:400]})
    return viol, len(order)


def oracle_c13_visible(tables, seed, tier, deep):
    """pseudonyms as they become visible in --redactNamespaces / --redactFieldNames output: every name, incl. names that already look
    like a pseudonym (start with '<replacement>_'), must come out as the independent pseudonym of the name"""
    rng = SplitMix(seed ^ 0x1313)
    viol = []
    names = ["orders", "REDACTED_x", "REDACTED_", "REDACTED_ca978112ca1bbdca", "archive_2024", "X_y", "X_", "r.x_y_z", "a", "products", "shipments", "audit_log", "Ünï", "$cmd"]
    for _ in range(60 if (tier == "thorough" or deep) else 20):
        names.append("".join(rng.choice("abcdefXYZ019_-") for _ in range(1 + rng.below(10))))
    repls = ["REDACTED", "X", "archive", "r.x_y", "50%", "%v%s"]
    pairs = []
    for i, nm in enumerate(names):
        for rp in repls:
            db = names[(i * 7 + 3) % len(names)]
            line = Obj([("c", "COMMAND"), ("msg", "Slow query"), ("attr", Obj([("ns", db + "." + nm), ("command", Obj([("find", nm), ("filter", Obj([(nm, Num("1"))])), ("$db", db)])),
                                                                            ("planSummary", "IXSCAN { %s: 1 }" % nm)]))])
            pairs.append((Case(line), Cfg(repl=rp, w=True, eager=(db,)), nm, db, rp))
    # compound indexes: every key of the plan summary must come out as ITS OWN pseudonym - also when one key is a
    # prefix / suffix / infix of another key of the same index, in either order, and when a key looks like a pseudonym
    plans = []
    simple = [n for n in names if pyre.fullmatch(r"[A-Za-z][A-Za-z0-9_]*", n)]
    for i, nm in enumerate(simple):
        other = simple[(i * 5 + 1) % len(simple)]
        for keys in ([nm, nm + "Id"], [nm + "Id", nm], [nm, nm + ".tags"], [nm + ".tags", nm, "x" + nm], [nm, other, nm + other], [nm, "a" + nm + "z", other]):
            if len(set(keys)) != len(keys):
                continue          # (duplicate sibling keys collapse at parse time; not what is tested here)
            for rp in repls[:2] if i % 2 else repls[2:]:
                summ = "IXSCAN { " + ", ".join("%s: %s" % (k, ["1", "-1"][j % 2]) for j, k in enumerate(keys)) + " }"
                line = Obj([("c", "COMMAND"), ("msg", "Slow query"), ("attr", Obj([("ns", "d." + nm), ("command", Obj([("find", nm), ("filter", Obj([(k, Num("1")) for k in keys])), ("$db", "d")])),
                                                                                ("planSummary", summ)]))])
                plans.append((Case(line), Cfg(repl=rp, eager=("d",)), keys, rp))
    pres = run_lines([(cs, c) for cs, c, _, _ in plans])
    for (cs, c, keys, rp), r in zip(plans, pres):
        t = out_text(r)
        if t is None:
            continue
        o = parse_json(t)
        exp = "IXSCAN { " + ", ".join("%s: %s" % (py_hash_name(rp, k), ["1", "-1"][j % 2]) for j, k in enumerate(keys)) + " }"
        got = get_path(o, ("attr", "planSummary"))
        if got != exp:
            viol.append({"site": "visible:planSummary", "detail": "index keys %r (replacement %r): planSummary is %r, expected every key as its own pseudonym: %r" % (keys, rp, got, exp),
                         "cfg": c.s(), "cli_flags": c.cli(), "input": cs.text, "output": t})
        filt = get_path(o, ("attr", "command", "filter"))
        if isinstance(filt, Obj) and filt.keys() != [py_hash_name(rp, k) for k in keys]:
            viol.append({"site": "visible:filter-key", "detail": "fields %r renamed to %r" % (keys, filt.keys()), "cfg": c.s(), "cli_flags": c.cli(), "input": cs.text, "output": t})
    res = run_lines([(cs, c) for cs, c, _, _, _ in pairs])
    for (cs, c, nm, db, rp), r in zip(pairs, res):
        t = out_text(r)
        if t is None:
            continue
        o = parse_json(t)
        want = {("attr", "ns"): py_hash_name(rp, db + "." + nm), ("attr", "command", "find"): py_hash_name(rp, nm), ("attr", "command", "$db"): py_hash_name(rp, db)}
        for pth, w in want.items():
            got = get_path(o, pth)
            if got != w:
                viol.append({"site": "visible:" + "/".join(pth), "detail": "name %r (replacement %r): %s is %r, expected the pseudonym %r" % (nm if pth[-1] != "$db" else db, rp, "/".join(pth), got, w),
                             "cfg": c.s(), "cli_flags": c.cli(), "input": cs.text, "output": t})
        if "$" not in nm and "." not in nm and nm.strip() == nm and nm:
            filt = get_path(o, ("attr", "command", "filter"))
            if isinstance(filt, Obj) and filt.keys() != [py_hash_name(rp, nm)]:
                viol.append({"site": "visible:filter-key", "detail": "field %r renamed to %r, expected %r" % (nm, filt.keys(), py_hash_name(rp, nm)), "cfg": c.s(), "cli_flags": c.cli(), "input": cs.text, "output": t})
    # the same names inside the command WRAPPED by explain, in an aggregate with $lookup / $out, in bulkWrite's nsInfo and in an
    # originating command: one name -> one pseudonym wherever it stands (a position visited twice shows as the pseudonym of a pseudonym)
    wrapped = []
    for i, nm in enumerate(names[:12]):
        rp = repls[i % len(repls)]
        db = names[(i * 7 + 3) % len(names)]
        if "$" in nm or "$" in db:
            continue
        inner = Obj([("find", nm), ("filter", Obj([("k", Num("1"))])), ("$db", db)])
        agg = Obj([("aggregate", nm), ("pipeline", [Obj([("$lookup", Obj([("from", nm), ("as", "x"), ("localField", "a"), ("foreignField", "b")]))]), Obj([("$out", Obj([("db", db), ("coll", nm)]))])]), ("$db", db)])
        lines_ = [
            (Obj([("explain", inner), ("verbosity", "queryPlanner"), ("$db", db)]), [("attr", "command", "explain", "find"), ("attr", "command", "explain", "$db"), ("attr", "command", "$db")], [nm, db, db]),
            (Obj([("explain", agg), ("$db", db)]), [("attr", "command", "explain", "aggregate"), ("attr", "command", "explain", "pipeline", 0, "$lookup", "from"), ("attr", "command", "explain", "pipeline", 1, "$out", "coll"), ("attr", "command", "explain", "pipeline", 1, "$out", "db")], [nm, nm, nm, db]),
            (Obj([("bulkWrite", Num("1")), ("ops", [Obj([("insert", Num("0")), ("document", Obj([("k", Num("1"))]))])]), ("nsInfo", [Obj([("ns", db + "." + nm)])]), ("$db", "admin")]), [("attr", "command", "nsInfo", 0, "ns")], [db + "." + nm]),
        ]
        for cmd_, pths, vals_ in lines_:
            line = Obj([("c", "COMMAND"), ("msg", "Slow query"), ("attr", Obj([("ns", db + "." + nm), ("command", cmd_), ("originatingCommand", inner)]))])
            wrapped.append((Case(line), Cfg(repl=rp, w=True), pths + [("attr", "originatingCommand", "find"), ("attr", "ns")], vals_ + [nm, db + "." + nm], rp))
    wres = run_lines([(cs, c) for cs, c, _, _, _ in wrapped])
    for (cs, c, pths, vals_, rp), r in zip(wrapped, wres):
        t = out_text(r)
        if t is None:
            continue
        o = parse_json(t)
        for pth, v_ in zip(pths, vals_):
            try:
                got = get_path(o, pth)
            except Exception:
                got = None
            if got != py_hash_name(rp, v_):
                viol.append({"site": "visible:" + "/".join(str(x) for x in pth if not isinstance(x, int)), "detail": "name %r (replacement %r) at %s comes out as %r, expected its pseudonym %r" % (v_, rp, "/".join(map(str, pth)), got, py_hash_name(rp, v_)),
                             "cfg": c.s(), "cli_flags": c.cli(), "input": cs.text, "output": t})
    mv, mn = many_names(tier, deep)
    viol += mv
    # pseudonyms are a function of the name and the replacement text only: also with --encrypt on (whatever the key)
    for encv in (3, 4):
        ce = Cfg(w=True, eager=("shop",), enc=encv)
        le = '{"c":"COMMAND","msg":"Slow query","attr":{"ns":"shop.orders","command":{"find":"orders","filter":{"customer":1},"$db":"shop"}}}'
        te = out_text(run_lines([(Case(parse_json(le)), ce)])[0])
        oe = parse_json(te) if te else None
        if oe is None or get_path(oe, ("attr", "ns")) != py_hash_name("REDACTED", "shop.orders") or get_path(oe, ("attr", "command", "filter")).keys() != [py_hash_name("REDACTED", "customer")]:
            viol.append({"site": "visible:encrypt-changes-pseudonyms", "detail": "with --encrypt (key #%d) the pseudonyms are not the ones computed from name and replacement text alone" % encv, "cfg": ce.s(), "input": le, "output": te})
    return viol, len(pairs) + len(plans) + len(wrapped) + mn + 2


def with_visible(fn):
    def wrapped(tables, seed, tier, deep):
        r = fn(tables, seed, tier, deep)
        v, n = oracle_c13_visible(tables, seed, tier, deep)
        if v:
            r["violations"] = result(r["violations"] + v, 0, 0, "", {}, [])["violations"]
            r["stats"]["summary"]["violating_sites"] = len(r["violations"])
        r["stats"]["evaluations"] += n
        r["stats"]["summary"]["evaluations"] = r["stats"]["evaluations"]
        r["stats"]["rule"] += "; plus pseudonyms as visible in -w / -f output for names that already look like pseudonyms, names whose digest starts with 0, under four replacement texts"
        return r
    return wrapped


ORACLES["C13"] = with_visible(oracle_c13)


def with_many_names(fn):
    def wrapped(tables, seed, tier, deep):
        r = fn(tables, seed, tier, deep)
        v, n = many_names(tier, deep)
        if v:
            r["violations"] = result(r["violations"] + v, 0, 0, "", {}, [])["violations"]
            r["stats"]["summary"]["violating_sites"] = len(r["violations"])
        r["stats"]["evaluations"] += n
        r["stats"]["summary"]["evaluations"] = r["stats"]["evaluations"]
        r["stats"]["rule"] += "; plus thousands of distinct namespaces / field names in one process followed by the first ones again (same pseudonym every time, equal to the independent computation)"
        return r
    return wrapped


# ------------------------------------------------------------------------------------------- C06 / C08 (streams)

def mixed_lines(rng, n):
    g = G(rng.fork())
    out = []
    for _ in range(n):
        k = rng.below(10)
        if k < 5:
            l = to_json(G(rng.fork(), exotic=rng.chance(1, 3)).line()).encode()
            if len(l) > 60000:
                # longer than the reader's line limit: a run stops there with an error (allowed, C07) - not what these streams are about
                l = to_json(G(rng.fork()).line()).encode()
            out.append(l)
        elif k < 7:
            out.append(to_json(other_line(rng)).encode())
        elif k == 7:
            out.append(rng.choice([b"", b" ", b"\t  "]))
            if rng.chance(1, 2):
                # a JSON object with white space around it is still a JSON object line
                l = to_json(G(rng.fork()).line()).encode()
                out.append(rng.choice([b"  " + l, l + b" ", b"\t" + l + b"\t ", l + b"\r"]))
        elif k == 8:
            out.append(rng.choice([b"not json at all", b"2024-05-01T12:00:00.000+0000 I NETWORK [conn] legacy", b"[1,2,3]", b'{"unterminated":', b'"str"', b"{} trailing"]))
        else:
            out.append(b'{"msg":"caf\xc3\xa9 \xe2\x82\xac","attr":{"v":[1.50,2e3,[[]]]}}')
    # the same entry twice in a row, and again later: every occurrence is a line of its own
    if out and rng.chance(1, 2):
        j = rng.below(len(out))
        out.insert(j, out[j])
        if rng.chance(1, 2):
            out.append(out[j])
    return out


def expected_stream(lines, cfg):
    res = go_exec([(str(i), ["line", cfg.s(), hx(l)]) for i, l in enumerate(lines)])
    out = []
    for i in range(len(lines)):
        r = res[str(i)]
        out.append((unhxb(r[3:]) + b"\n") if r.startswith("ok ") else b"")
    return out


def oracle_c06(tables, seed, tier, deep):
    import tempfile, shutil, gzip
    big = tier == "thorough" or deep
    rng = SplitMix(seed ^ 0x6)
    viol = []
    dist = collections.Counter()
    n_in = 0
    cfgs = [Cfg(), Cfg(n=True, b=True, i=True, w=True), Cfg(eager=("",)), Cfg(re="^a$")]
    work = tempfile.mkdtemp(prefix="verif_c06_")
    try:
        for it in range(60 if big else 10):
            cfg = cfgs[it % len(cfgs)]
            A = mixed_lines(rng, 1 + rng.below(6))
            B = mixed_lines(rng, 1 + rng.below(6))
            eA, eB = expected_stream(A, cfg), expected_stream(B, cfg)
            exp = b"".join(eA + eB)
            variants = {}
            for crlf in (False, True):
                for final in (True, False):
                    sep = b"\r\n" if crlf else b"\n"
                    data = sep.join(A + B) + (sep if final else b"")
                    if not final and (A + B)[-1] == b"":
                        continue
                    variants[(crlf, final)] = data
            ops = [("%d.%d" % (int(k[0]), int(k[1])), ["stream", cfg.s(), "c%d" % rng.choice([1, 13, 4096, 70000]), hx(d)]) for k, d in variants.items()]
            ops.append(("A", ["stream", cfg.s(), "-", hx(b"\n".join(A) + b"\n")]))
            ops.append(("B", ["stream", cfg.s(), "-", hx(b"\n".join(B) + b"\n")]))
            ops.append(("AB2", ["stream", cfg.s(), "-", hx(b"\n".join(A + B) + b"\n")]))
            res = go_exec(ops)
            n_in += len(ops)
            outs = {}
            for oid, _ in ops:
                p = res[oid].split(" ")
                outs[oid] = (p[0], unhxb(p[1]))
                dist[p[0]] += 1
            for oid, (st, o) in outs.items():
                want = b"".join(eA) if oid == "A" else b"".join(eB) if oid == "B" else exp
                if st != "ok" or o != want:
                    viol.append({"site": "stream:" + ("split" if oid in ("A", "B") else "variant"), "detail": "variant %s: status %s, output differs from the line-by-line result (%d vs %d bytes)" % (oid, st, len(o), len(want)), "cfg": cfg.s(), "input_hex": hx(b"\n".join(A + B))})
            if outs["A"][1] + outs["B"][1] != outs["AB2"][1]:
                viol.append({"site": "stream:concat", "detail": "redact(A++B) != redact(A)++redact(B)", "cfg": cfg.s(), "input_hex": hx(b"\n".join(A + B))})
            # whole program: 3 input channels x 2 output channels, twice
            data = b"\n".join(A + B) + b"\n"
            fplain, fgz = os.path.join(work, "in%d.log" % it), os.path.join(work, "in%d.log.gz" % it)
            open(fplain, "wb").write(data)
            with gzip.open(fgz, "wb") as fh:
                fh.write(data)
            # the same text as a gzip file of several members (what `cat a.gz b.gz` or a rotating compressor produces),
            # cut at line boundaries and, for the last cut, inside a line
            fgzm = os.path.join(work, "in%dm.log.gz" % it)
            nl = [i + 1 for i, b in enumerate(data) if b == 10]
            cuts = sorted(set([nl[len(nl) // 3], nl[(2 * len(nl)) // 3] - (3 if it % 2 else 0)])) if len(nl) >= 3 else [len(data) // 2]
            with open(fgzm, "wb") as fh:
                prev = 0
                for cpos in cuts + [len(data)]:
                    fh.write(gzip.compress(data[prev:cpos]))
                    prev = cpos
            # the same text WITHOUT its final newline, as a plain file and as a .gz (the last line is still a line)
            fplain_nf, fgz_nf = os.path.join(work, "in%dnf.log" % it), os.path.join(work, "in%dnf.log.gz" % it)
            open(fplain_nf, "wb").write(data[:-1])
            with gzip.open(fgz_nf, "wb") as fh:
                fh.write(data[:-1])
            got = {}
            for rep in range(2):
                for ch_in in ("file", "gz", "gzmulti", "stdin", "file-nofinal", "gz-nofinal"):
                    for ch_out in ("stdout", "outfile"):
                        args = ["redact"] + cfg.cli()
                        stdin = None
                        if ch_in == "file":
                            args.append(fplain)
                        elif ch_in == "gz":
                            args.append(fgz)
                        elif ch_in == "gzmulti":
                            args.append(fgzm)
                        elif ch_in == "file-nofinal":
                            args.append(fplain_nf)
                        elif ch_in == "gz-nofinal":
                            args.append(fgz_nf)
                        else:
                            stdin = data
                        of = os.path.join(work, "out_%d_%s_%s_%d" % (it, ch_in, ch_out, rep))
                        if ch_out == "outfile":
                            args += ["-o", of]
                            if rep == 1:
                                # the output path already holds a longer file from an earlier run
                                open(of, "wb").write(b'{"stale":"line from an earlier, longer run"}\n' * (200 + len(exp) // 20))
                        rc, so, se = run_cli(args, stdin=stdin, cwd=work)
                        n_in += 1
                        o = open(of, "rb").read() if ch_out == "outfile" else so
                        dist["cli-%s-%s" % (ch_in, ch_out)] += 1
                        if rc != 0 or o != exp:
                            viol.append({"site": "channel:%s:%s" % (ch_in, ch_out), "detail": "exit %d, output %s the in-process line-by-line result (%d vs %d bytes) %s" % (rc, "equals" if o == exp else "differs from", len(o), len(exp), se[-200:].decode("utf-8", "replace")),
                                         "cfg": cfg.s(), "cli_flags": cfg.cli(), "input_hex": hx(data)})
        # a SLOW consumer on stdout (a pager, a busy pipe): thousands of distinct entries, the reader stalls; the bytes must be the same
        big_lines = []
        for j in range(6000 if big else 2500):
            big_lines.append(to_json(Obj([("t", Obj([("$date", "2024-05-08T12:00:%02d.%03dZ" % (j % 60, j % 1000))])), ("c", "COMMAND"), ("id", Num(str(j))), ("msg", "Slow query"),
                                          ("attr", Obj([("ns", "d.c%d" % (j % 7)), ("command", Obj([("find", "c"), ("filter", Obj([("k%d" % j, "v" * (j % 173)), ("n", Num(str(j)))]))])), ("durationMillis", Num(str(j * 3)))]))])).encode())
            if j % 97 == 0:
                big_lines.append(b"not json %d" % j)
        bdata = b"\n".join(big_lines) + b"\n"
        fbig = os.path.join(work, "big.log")
        open(fbig, "wb").write(bdata)
        cfgb = Cfg(n=True)
        rcf, sof, sef = run_cli(["redact"] + cfgb.cli() + [fbig], cwd=work)
        rcs, sos = run_cli_slow(["redact"] + cfgb.cli() + [fbig], cwd=work)
        n_in += 2
        dist["cli-file-stdout-slow"] += 1
        expb = b"".join(e_ for e_ in expected_stream(big_lines, cfgb) if e_)
        if rcf != 0 or sof != expb:
            viol.append({"site": "channel:file:stdout:many-lines", "detail": "exit %d, %d entries: output differs from the line-by-line result (%d vs %d bytes)" % (rcf, len(big_lines), len(sof), len(expb)), "cfg": cfgb.s(), "cli_flags": cfgb.cli(), "input_hex": hx(bdata[:4000])})
        if rcs != 0 or sos != expb:
            k = next((i for i in range(min(len(sos), len(expb))) if sos[i] != expb[i]), min(len(sos), len(expb)))
            viol.append({"site": "channel:file:stdout-slow-reader", "detail": "exit %d, %d entries, stdout read slowly: output differs from the line-by-line result at byte %d (%d vs %d bytes): %r" % (rcs, len(big_lines), k, len(sos), len(expb), sos[max(0, k - 80):k + 80]),
                         "cfg": cfgb.s(), "cli_flags": cfgb.cli(), "input": "%d generated entries (tools/oracles.py oracle_c06, slow consumer); first: %s" % (len(big_lines), big_lines[0].decode())})
    finally:
        shutil.rmtree(work, ignore_errors=True)
    return result(viol, n_in, n_in, "multi-line inputs mixing command lines, other components, blank / whitespace-only / non-JSON / legacy text lines; in-process stream processor with chunked reads, LF and CRLF, with and without final newline, A / B / A++B; the real CLI on file / .gz / stdin x stdout / --outputFile, each twice; every output compared byte for byte with the per-line results",
                  dist, [{"lines": 3}])


def whole_line_prefix(got, exp_lines):
    acc = b""
    if got == b"":
        return True
    for l in exp_lines:
        acc += l
        if acc == got:
            return True
        if len(acc) > len(got):
            return False
    return False


def oracle_c08(tables, seed, tier, deep):
    import tempfile, shutil, gzip
    big = tier == "thorough" or deep
    rng = SplitMix(seed ^ 0x8)
    viol = []
    dist = collections.Counter()
    n = 0
    cfg = Cfg(n=True)
    for it in range(30 if big else 6):
        lines = [l for l in mixed_lines(rng, 2 + rng.below(5))]
        if it % 3 == 0:
            # a line that is NOT a JSON object line but starts with one: a cut right behind the object must not make it one
            g1 = to_json(G(rng.fork()).line()).encode()
            lines = lines[:1] + [g1 + rng.choice([b" trailing", b"x", b" {}", b",", b" 1"])] + lines[1:] + [b'{"a":{"b":1}} }']
        data = b"\n".join(lines) + b"\n"
        exp = expected_stream(lines, cfg)
        nwrites = sum(1 for e in exp if e)
        ops = []
        closers = [i + 1 for i, b in enumerate(data) if b == 0x7d]
        ks = sorted(set([0, 1, len(data) - 1, len(data)] + [rng.below(len(data) + 1) for _ in range(40 if big else 12)] + closers[-(60 if big else 25):]))
        for k in ks:
            ops.append(("r%d" % k, ["stream", cfg.s(), "c%d,r%d" % (rng.choice([1, 64, 4096]), k), hx(data)], ("r", k)))
        for k in range(nwrites + 1):
            ops.append(("w%d" % k, ["stream", cfg.s(), "w%d" % k, hx(data)], ("w", k)))
            ops.append(("s%d" % k, ["stream", cfg.s(), "s%d" % k, hx(data)], ("s", k)))
            # the same input WITHOUT the final newline: the last entry is written by the code behind the scan loop
            ops.append(("W%d" % k, ["stream", cfg.s(), "w%d" % k, hx(data[:-1])], ("w", k)))
            ops.append(("S%d" % k, ["stream", cfg.s(), "s%d" % k, hx(data[:-1])], ("s", k)))
        res = go_exec([(o[0], o[1]) for o in ops])
        n += len(ops)
        for oid, f, (kind, k) in ops:
            p = res[oid].split(" ")
            st, out = p[0], unhxb(p[1])
            reached = ("r=true" in res[oid]) or ("w=true" in res[oid])
            dist[kind + ":" + st] += 1
            if reached and st == "ok":
                viol.append({"site": "fault:%s:reported-ok" % kind, "detail": "fault %s%d was reached but the stream processor returned success" % (kind, k), "cfg": cfg.s(), "input_hex": f[3], "faults": f[2]})
            if not reached and st != "ok":
                viol.append({"site": "fault:%s:spurious" % kind, "detail": "no fault reached but status %s" % st, "cfg": cfg.s(), "input_hex": f[3], "faults": f[2]})
            body = out
            if kind == "s" and reached:
                # a short write leaves part of one line: only what precedes the failing write is judged
                last_nl = out.rfind(b"\n")
                body = out[: last_nl + 1] if not whole_line_prefix(out, [e for e in exp if e]) else out
            if kind == "r" and reached:
                # the partial last token may be a complete line of the input cut exactly at its end
                pass
            if not whole_line_prefix(body, [e for e in exp if e]):
                viol.append({"site": "fault:%s:not-a-prefix" % kind, "detail": "bytes written before the fault are not a whole-line prefix of the fault-free output", "cfg": cfg.s(), "input_hex": f[3], "faults": f[2]})
    # every write fails, inputs of 1..N copies of one line: whatever the total size, the failure must be reported
    for L, maxn in ((60, 1200 if big else 1200), (400, 400), (3000, 60)):
        line = to_json(Obj([("c", "COMMAND"), ("attr", Obj([("ns", "d.c"), ("command", Obj([("find", "c"), ("filter", Obj([("a", "x" * L)]))]))]))]))
        res = go_exec([("w", ["wsweep", cfg.s(), hx(line), str(maxn)])]).get("w", "noanswer")
        n += maxn
        dist["write-fault-size-sweep:" + res.split(" ")[0]] += 1
        if not res.startswith("ok "):
            viol.append({"site": "fault:w:reported-ok:size-sweep", "detail": "every write fails, input = n copies of one line: success reported for n in %s" % res[:200], "cfg": cfg.s(), "input": line})
    # whole program: real devices and damaged gzip streams
    work = tempfile.mkdtemp(prefix="verif_c08_")
    try:
        lines = mixed_lines(rng, 8)
        lines = [l for l in lines]
        data = b"\n".join(lines) + b"\n"
        exp = expected_stream(lines, Cfg())
        fplain = os.path.join(work, "in.log")
        open(fplain, "wb").write(data)
        if any(exp):
            rc, so, se = run_cli(["redact", fplain, "-o", "/dev/full"], cwd=work)
            n += 1
            dist["cli-outfile-devfull:%d" % rc] += 1
            if rc == 0:
                viol.append({"site": "device:/dev/full:-o", "detail": "-o /dev/full: every write fails, exit status 0", "input_hex": hx(data)})
            with open("/dev/full", "wb") as full:
                e = dict(os.environ)
                e.pop("VERIF_HARNESS", None)
                p = subprocess.run([harness_bin(), "redact", fplain], stdin=subprocess.DEVNULL, stdout=full, stderr=subprocess.PIPE, env=e, cwd=work)
            n += 1
            dist["cli-stdout-devfull:%d" % p.returncode] += 1
            if p.returncode == 0:
                viol.append({"site": "device:/dev/full:stdout", "detail": "> /dev/full: every write fails, exit status 0", "input_hex": hx(data)})
            # closed pipe
            e = dict(os.environ)
            e.pop("VERIF_HARNESS", None)
            bigdata = data * 2000
            fb = os.path.join(work, "big.log")
            open(fb, "wb").write(bigdata)
            p = subprocess.Popen([harness_bin(), "redact", fb], stdin=subprocess.DEVNULL, stdout=subprocess.PIPE, stderr=subprocess.PIPE, env=e, cwd=work)
            p.stdout.read(10)
            p.stdout.close()
            p.wait(timeout=60)
            n += 1
            dist["cli-closed-pipe:%d" % p.returncode] += 1
            if p.returncode == 0:
                viol.append({"site": "device:closed-pipe", "detail": "stdout closed by the reader, exit status 0", "input_hex": hx(data[:200])})
        gzdata = gzip.compress(data)
        cuts = sorted(set([0, 1, 5, 10, len(gzdata) - 1, len(gzdata) - 4, len(gzdata) - 8] + [rng.below(len(gzdata)) for _ in range(60 if big else 12)]))
        explines = [e for e in exp if e]
        for k in cuts:
            if k < 0:
                continue
            fz = os.path.join(work, "cut%d.log.gz" % k)
            open(fz, "wb").write(gzdata[:k])
            rc, so, se = run_cli(["redact", fz], cwd=work)
            n += 1
            dist["gz-cut:%d" % (rc != 0)] += 1
            if rc == 0:
                viol.append({"site": "gzip:cut:exit0", "detail": "gzip stream cut at byte %d of %d: exit status 0" % (k, len(gzdata)), "input_hex": hx(gzdata[:k])})
            if not whole_line_prefix(so, explines):
                viol.append({"site": "gzip:cut:not-a-prefix", "detail": "gzip stream cut at byte %d: output is not a whole-line prefix of the fault-free output" % k, "input_hex": hx(gzdata[:k]), "output": so[-300:].decode("utf-8", "replace")})
        for _ in range(40 if big else 10):
            k = rng.below(len(gzdata))
            b = bytearray(gzdata)
            b[k] ^= 1 << rng.below(8)
            fz = os.path.join(work, "flip.log.gz")
            open(fz, "wb").write(bytes(b))
            rc, so, se = run_cli(["redact", fz], cwd=work)
            n += 1
            dist["gz-flip:%d" % (rc != 0)] += 1
            if rc == 0 and so != b"".join(exp):
                viol.append({"site": "gzip:flip:exit0", "detail": "bit flipped at byte %d: exit status 0 with output different from the fault-free output" % k, "input_hex": hx(bytes(b))})
        # concatenated (multi-member) gzip input damaged at and around every member boundary
        parts = [lines[:3], lines[3:5], lines[5:]]
        members = [gzip.compress(b"\n".join(p) + b"\n") for p in parts if p]
        whole = b"".join(members)
        full = b"".join(exp)
        bounds = []
        off = 0
        for mb in members[:-1]:
            off += len(mb)
            bounds.append(off)
        fz = os.path.join(work, "multi.log.gz")
        open(fz, "wb").write(whole)
        rc, so, se = run_cli(["redact", fz], cwd=work)
        n += 1
        if rc != 0 or so != full:
            viol.append({"site": "gzip:multi-member:intact", "detail": "an intact concatenation of %d gzip members: exit %d, output %s the fault-free output" % (len(members), rc, "equals" if so == full else "differs from"), "input_hex": hx(whole)})
        for B in bounds:
            damaged = []
            for d in range(1, 14):
                damaged.append(("cut+%d" % d, whole[:B + d]))
            for d in range(0, 10):
                for bit in (0, 3, 7):
                    b = bytearray(whole)
                    b[B + d] ^= 1 << bit
                    damaged.append(("flip+%d.%d" % (d, bit), bytes(b)))
            for ln in (1, 2, 4, 32):
                damaged.append(("zero%d" % ln, whole[:B] + b"\x00" * ln + whole[B + ln:]))
                damaged.append(("garbage%d" % ln, whole[:B] + b"\x00" * ln))
            for d in range(1, 9):
                damaged.append(("cut-%d" % d, whole[:B - d]))
            for name, blob in damaged:
                open(fz, "wb").write(blob)
                rc, so, se = run_cli(["redact", fz], cwd=work)
                n += 1
                dist["gz-member-boundary:%d" % (rc != 0)] += 1
                if rc == 0 and so != full:
                    viol.append({"site": "gzip:member-boundary:exit0", "detail": "multi-member gzip damaged at a member boundary (%s at offset %d of %d): exit status 0 with %d of %d output bytes" % (name, B, len(whole), len(so), len(full)), "input_hex": hx(blob)})
                elif not whole_line_prefix(so, explines):
                    viol.append({"site": "gzip:member-boundary:not-a-prefix", "detail": "multi-member gzip damaged (%s at %d): output is not a whole-line prefix" % (name, B), "input_hex": hx(blob)})
    finally:
        shutil.rmtree(work, ignore_errors=True)
    return result(viol, n, n, "fault injection: the k-th read fails (sampled k, chunked reads), the k-th write fails or is short (every k), in-process; /dev/full as stdout and as --outputFile, a closed pipe, gzip streams cut at sampled byte offsets and with flipped bits, and concatenated gzip members cut / flipped / zeroed at and around every member boundary, through the real CLI; status must be an error iff a fault was reached, bytes written must be a whole-line prefix of the fault-free output",
                  dist, [{"fault": "r17"}])


def with_lsweep(fn):
    def wrapped(tables, seed, tier, deep):
        r = fn(tables, seed, tier, deep)
        big = tier == "thorough" or deep
        lens = sorted(set([k * 512 + d for k in range(1, 129) for d in (-1, 0, 1)] + list(range(9, 300, 7)) + ([k * 64 for k in range(1, 1023)] if big else [])))
        lens = [x for x in lens if 9 <= x < 65530]
        res = go_exec([("l", ["lsweep", Cfg().s(), ",".join(map(str, lens))])], timeout=1800).get("l", "noanswer")
        if not res.startswith("ok "):
            r["violations"] = result(r["violations"] + [{"site": "final-newline:last-line-length-sweep", "cfg": Cfg().s(),
                "detail": "a log whose last line is exactly n bytes long gives different output with and without the final newline (or with CRLF): " + res[:300], "input": ""}], 0, 0, "", {}, [])["violations"]
            r["stats"]["summary"]["violating_sites"] = len(r["violations"])
        r["stats"]["evaluations"] += 6 * len(lens)
        r["stats"]["summary"]["evaluations"] = r["stats"]["evaluations"]
        r["stats"]["rule"] += "; plus a sweep over the byte length of an unterminated last line (%d lengths: every multiple of 512 up to the reader limit and its neighbours, read whole / in 4096- and 512-byte chunks): output with and without the final LF / CRLF must be identical" % len(lens)
        return r
    return wrapped


ORACLES["C06"] = with_lsweep(oracle_c06)
ORACLES["C08"] = oracle_c08


# ------------------------------------------------------------------------------------------- C09 / C10 (encryption)

HARNESS_KEY = bytes([(i * 7 + 3) % 256 for i in range(64)])


def nasty_strings(rng, n):
    base = ["", " ", "a", "REDACTED", "QUJD", "AAAA", "{\"a\":1}", "null", "x" * 8191, "é" * 700, "\U0001F600\U0001F4A9", "中文字符", "\x00\x01\x1f\x7f", "line1\nline2\r\n\ttab", "\"quoted\" \\back\\", "<script>&amp;</script>",
            "\u2028\u2029", "a@b.co", "$notfirst"[1:] + "$x", "A" * 64, "=" * 5, "-----BEGIN", "\ufffd", "\ud7ff\ue000", "0", "-1e5",
            "discount 100% today", "%s %d %v %!d(MISSING)", "%", "%%", "100%25", "a%20b", "Alice@Example.COM", "alice@example.com",
            # values that a padding / trimming scheme would mangle: NUL, white space and 0x80 at either end, block-size lengths
            "pin\x00", "\x00", "a\x00\x00", "\x00a", " both ends ", "trailing\n", "\ttab\t", "hi\u0080", "\u0080", "16bytes_exactly!!"[:16], "x" * 15, "x" * 17, "x" * 32, "\x01", "\x10" * 16, "\x00" * 16]
    out = list(base)
    alph = "abcXYZ019 _-+/=\"\\{}[]:,é中\U0001F600\x07%"
    while len(out) < n:
        out.append("".join(rng.choice(alph) for _ in range(rng.choice([1, 2, 5, 17, 64, 300]))))
    return out[:n]


def oracle_c09(tables, seed, tier, deep):
    import tempfile, shutil
    big = tier == "thorough" or deep
    rng = SplitMix(seed ^ 0x9)
    strs = [s for s in nasty_strings(rng, 160 if big else 56) if not s.startswith("$")]
    viol = []
    dist = collections.Counter()
    n = 0
    work = tempfile.mkdtemp(prefix="verif_c09_")
    try:
        # end to end through the real CLI: redact --encrypt, then decrypt every ciphertext
        line = Obj([("c", "COMMAND"), ("msg", "Slow query"), ("attr", Obj([("ns", "d.c"), ("command", Obj([("find", "c"), ("filter", Obj([("f%d" % i, s) for i, s in enumerate(strs)]))]))]))])
        inp = os.path.join(work, "in.log")
        open(inp, "w", encoding="utf-8").write(to_json(line) + "\n")
        key = os.path.join(work, "k.key")
        outp = os.path.join(work, "out.log")
        rc, so, se = run_cli(["redact", inp, "-o", outp, "--encrypt", "--encryptionKeyFile", key], cwd=work)
        n += 1
        if rc != 0:
            viol.append({"site": "cli:redact-encrypt-failed", "detail": se[-300:].decode("utf-8", "replace"), "input": to_json(line)[:300]})
        else:
            o = parse_json(open(outp, encoding="utf-8").read())
            filt = get_path(o, ("attr", "command", "filter"))
            cts = []
            for i, s in enumerate(strs):
                ct = filt.get("f%d" % i)
                cts.append(ct)
                rc, so, se = run_cli(["decrypt", ct, "--decryptionKeyFile", key], cwd=work)
                n += 1
                want = ("Raw value: " + s + "\n").encode("utf-8")
                dist["roundtrip"] += 1
                if rc != 0 or not so.endswith(want):
                    viol.append({"site": "roundtrip", "detail": "decrypt of the emitted leaf gave exit %d, stdout tail %r, expected %r" % (rc, so[-80:], want[-80:]), "input": s[:200]})
            # a value that is ITSELF a ciphertext under the same key (a log that was already redacted once with --encrypt), and the
            # same inside an explain-wrapped command: decrypt must print exactly the value that was in the log, one layer only
            inner = [c_ for c_ in cts[:3] if c_]
            line2 = Obj([("c", "COMMAND"), ("msg", "Slow query"), ("attr", Obj([("ns", "d.c"), ("command", Obj([("explain", Obj([("find", "c"), ("filter", Obj([("g%d" % i, c_) for i, c_ in enumerate(inner)] + [("plain", "zqexplained")]))])), ("verbosity", "queryPlanner")]))]))])
            inp2b = os.path.join(work, "in2.log")
            open(inp2b, "w", encoding="utf-8").write(to_json(line2) + "\n")
            outp2 = os.path.join(work, "out2.log")
            rc, so, se = run_cli(["redact", inp2b, "-o", outp2, "--encrypt", "--encryptionKeyFile", key], cwd=work)
            n += 1
            if rc == 0:
                f2 = get_path(parse_json(open(outp2, encoding="utf-8").read()), ("attr", "command", "explain", "filter"))
                for k_, want_ in [("g%d" % i, c_) for i, c_ in enumerate(inner)] + [("plain", "zqexplained")]:
                    ct2 = f2.get(k_) if isinstance(f2, Obj) else None
                    rc, so, se = run_cli(["decrypt", ct2 or "", "--decryptionKeyFile", key], cwd=work)
                    n += 1
                    dist["roundtrip-nested"] += 1
                    if rc != 0 or not so.endswith(("Raw value: " + want_ + "\n").encode()):
                        viol.append({"site": "roundtrip:value-that-is-a-ciphertext" if k_ != "plain" else "roundtrip:explain", "detail": "decrypt gave exit %d, %r; the value in the log was %r" % (rc, so[-90:], want_[:60]), "input": to_json(line2)[:400]})
            # the key path is a DANGLING symlink (the key is to live elsewhere; nothing is there yet): whatever key the run encrypts
            # with must be the one a later `decrypt` with the same path finds
            for kind_ in ("dangling-symlink", "symlink-into-new-dir"):
                dd = tempfile.mkdtemp(dir=work)
                tgt = os.path.join(dd, "vault", "real.key") if kind_ == "symlink-into-new-dir" else os.path.join(dd, "real.key")
                if kind_ == "symlink-into-new-dir":
                    os.mkdir(os.path.join(dd, "vault"))
                kp = os.path.join(dd, "link.key")
                os.symlink(tgt, kp)
                ins = os.path.join(dd, "in.log")
                open(ins, "w").write(to_json(Obj([("c", "COMMAND"), ("msg", "Slow query"), ("attr", Obj([("ns", "d.c"), ("command", Obj([("find", "c"), ("filter", Obj([("a", "zqsymlinkvalue")]))]))]))])) + "\n")
                outs = os.path.join(dd, "out.log")
                rc, so, se = run_cli(["redact", ins, "-o", outs, "--encrypt", "--encryptionKeyFile", kp], cwd=dd)
                n += 1
                dist["keypath:" + kind_] += 1
                if rc == 0 and os.path.exists(outs):
                    try:
                        ct_ = get_path(parse_json(open(outs, encoding="utf-8").read()), ("attr", "command", "filter", "a"))
                    except Exception:
                        ct_ = None
                    rc2, so2, se2 = run_cli(["decrypt", ct_ or "", "--decryptionKeyFile", kp], cwd=dd)
                    n += 1
                    if rc2 != 0 or not so2.endswith(b"Raw value: zqsymlinkvalue\n"):
                        viol.append({"site": "roundtrip:keypath:" + kind_, "detail": "redact --encrypt exited 0 with the key path a %s, but decrypt with the same key path gives exit %d, %r" % (kind_, rc2, (so2 + se2)[-120:]), "input": "zqsymlinkvalue"})
            # tampering: single-byte corruptions and truncations of ciphertexts, wrong key
            key2 = os.path.join(work, "k2.key")
            open(key2, "w").write(base64.b64encode(bytes(rng.below(256) for _ in range(64))).decode())
            for ct, s in list(zip(cts, strs))[: (40 if big else 8)]:
                raw = base64.b64decode(ct)
                if len(raw) < 16:
                    viol.append({"site": "ciphertext:too-short", "detail": "ciphertext of %r is %d bytes: it cannot carry the 16-byte SIV tag, so nothing binds it to the key" % (s[:40], len(raw)), "input": s[:100]})
                    continue
                muts = []
                for _ in range(12 if big else 5):
                    b = bytearray(raw)
                    b[rng.below(len(b))] ^= 1 << rng.below(8)
                    muts.append(bytes(b))
                muts += [raw[:-1], raw[1:], raw[: len(raw) // 2], raw + b"\x00"]
                for mct in muts:
                    rc, so, se = run_cli(["decrypt", base64.b64encode(mct).decode(), "--decryptionKeyFile", key], cwd=work)
                    n += 1
                    dist["tamper:%d" % (rc != 0)] += 1
                    if rc == 0:
                        viol.append({"site": "tamper:accepted", "detail": "altered ciphertext accepted: %r" % so[-80:], "input": s[:100]})
                rc, so, se = run_cli(["decrypt", ct, "--decryptionKeyFile", key2], cwd=work)
                n += 1
                dist["wrongkey:%d" % (rc != 0)] += 1
                if rc == 0:
                    viol.append({"site": "wrongkey:accepted", "detail": "ciphertext accepted under a different key: %r" % so[-80:], "input": s[:100]})
        # long values, one per line, several lines per run in different orders (sizes around powers of two; every line below the 64 KiB limit)
        sizes = [4095, 4096, 4097, 8191, 8192, 8193, 9000, 12288, 16383, 16384, 16385, 20000, 32768, 40000, 60000, 300, 0, 5]
        if os.path.exists(key):
            kraw = base64.b64decode(open(key, "rb").read().strip())
            orders = [sizes, list(reversed(sizes)), [20000, 5, 60000, 4097, 9000, 0, 16385, 300]]
            for oi, order in enumerate(orders if big else orders[:2] + orders[2:]):
                vals = [("L%d." % oi) + "".join(chr(0x61 + (j * 7 + k) % 26) for j in range(k)) for k in order]
                inp2 = os.path.join(work, "long%d.log" % oi)
                with open(inp2, "w", encoding="utf-8") as f:
                    for v in vals:
                        f.write(to_json(Obj([("c", "COMMAND"), ("attr", Obj([("ns", "d.c"), ("command", Obj([("insert", "c"), ("documents", [Obj([("text", v)])])]))]))])) + "\n")
                out2 = os.path.join(work, "long%d.out" % oi)
                rc, so, se = run_cli(["redact", inp2, "-o", out2, "--encrypt", "--encryptionKeyFile", key], cwd=work)
                n += 1
                got = [parse_json(l) for l in open(out2, encoding="utf-8").read().splitlines()] if rc == 0 and os.path.exists(out2) else []
                if len(got) != len(vals):
                    viol.append({"site": "cli:long-values-run-failed", "detail": "exit %d, %d of %d lines; %s" % (rc, len(got), len(vals), se[-200:].decode("utf-8", "replace")), "input": "value lengths %r" % order})
                    continue
                cts = [get_path(o, ("attr", "command", "documents"))[0].get("text") for o in got]
                res = go_exec([(str(i), ["dec", hx(kraw), hx(base64.b64decode(ct))]) for i, ct in enumerate(cts)])
                for i, v in enumerate(vals):
                    n += 1
                    dist["long-roundtrip"] += 1
                    r = res[str(i)].split(" ")
                    if r[0] != "ok" or unhxb(r[1]) != v.encode():
                        back = unhxb(r[1]) if r[0] == "ok" else b""
                        viol.append({"site": "roundtrip:long-value", "detail": "a %d-byte value (position %d of lengths %r in one run) decrypts to %d bytes (%s)" % (
                            len(v), i, order, len(back), "a prefix of the original" if back and v.encode().startswith(back) else res[str(i)][:60]), "input": v[:80] + "..."})
    finally:
        shutil.rmtree(work, ignore_errors=True)
    # API level, more volume
    more = nasty_strings(SplitMix(seed ^ 0x99), 2000 if big else 300)
    res = go_exec([(str(i), ["encrt", hx(HARNESS_KEY), hx(s.encode("utf-8", "surrogatepass"))]) for i, s in enumerate(more)])
    for i, s in enumerate(more):
        r = res[str(i)].split(" ")
        n += 1
        if r[0] != "ok" or unhxb(r[2]) != s.encode("utf-8", "surrogatepass"):
            viol.append({"site": "api-roundtrip", "detail": "Decrypt(Encrypt(x)) != x: " + res[str(i)][:80], "input": s[:100]})
    return result(viol, n, len(strs) + len(more), "end to end: one log line whose filter holds every test string, `redact --encrypt` then `decrypt` of every emitted leaf through the real CLI (JSON escaping and base64 in between); bit flips, truncations and extensions of ciphertexts and a different key must be refused; API-level round trips; strings: lengths 0..8191, all planes, control characters, base64-/JSON-looking",
                  dist, [{"string": strs[5]}])


def cmd_probe_line():
    return '{"t":{"$date":"2024-01-01T00:00:00.000+00:00"},"s":"I","c":"COMMAND","id":51803,"ctx":"conn1","msg":"Slow query","attr":{"ns":"shop.orders","command":{"find":"orders","filter":{"customer":"alice","mail":"a@b.example"},"$db":"shop"}}}'


def oracle_c10(tables, seed, tier, deep):
    big = tier == "thorough" or deep
    n = 1200 if big else 150
    cases = grammar_cases(seed ^ 0x10, n)
    viol = []
    dist = collections.Counter()
    # one literal in several positions of one line (plain string, under $oid / $date / $binary.base64, in an array, as an e-mail):
    # equal plaintexts must give equal ciphertexts wherever they stand
    same = Obj([("c", "COMMAND"), ("msg", "Slow query"), ("attr", Obj([("ns", "d.c"), ("command", Obj([("find", "c"), ("filter", Obj([
        ("a", "5f0000000000000000000abc"), ("b", Obj([("$oid", "5f0000000000000000000abc")])), ("c", Obj([("$in", ["5f0000000000000000000abc", "2020-01-01T00:00:00Z"])])),
        ("d", Obj([("$date", "2020-01-01T00:00:00Z")])), ("e", "2020-01-01T00:00:00Z"), ("f", Obj([("$binary", Obj([("base64", "QUJD"), ("subType", "00")]))])), ("g", "QUJD"),
        ("h", "zq@same.example"), ("i", Obj([("$eq", "zq@same.example")]))]))]))]))])
    rs = run_lines([(Case(same), Cfg(enc=3))])[0]
    ts = out_text(rs)
    if ts:
        fo = get_path(parse_json(ts), ("attr", "command", "filter"))
        groups = [[fo.get("a"), get_path(fo, ("b", "$oid")), get_path(fo, ("c", "$in"))[0]], [get_path(fo, ("d", "$date")), fo.get("e"), get_path(fo, ("c", "$in"))[1]],
                  [get_path(fo, ("f", "$binary", "base64")), fo.get("g")], [fo.get("h"), get_path(fo, ("i", "$eq"))]]
        for gi, grp in enumerate(groups):
            if len(set(map(str, grp))) != 1:
                viol.append({"site": "equal-plaintexts-differ:position", "detail": "one literal in %d positions of one line has %d different ciphertexts: %r" % (len(grp), len(set(map(str, grp))), [str(x)[:30] for x in grp]),
                             "cfg": Cfg(enc=3).s(), "input": to_json(same), "output": ts})
    flagsets = [dict(), dict(n=True, b=True), dict(w=True, i=True), dict(repl="zz")]
    trip = []
    for i, cs in enumerate(cases):
        fl = flagsets[i % len(flagsets)]
        trip.append((cs, Cfg(**fl), Cfg(enc=3, **fl), Cfg(enc=2, **fl)))
    rp = run_lines([(cs, a) for cs, a, b, c in trip])
    re_ = run_lines([(cs, b) for cs, a, b, c in trip])
    rb = run_lines([(cs, c) for cs, a, b, c in trip])
    decq = []
    seen_ct = {}
    for k, ((cs, a, b, c), x, y, z) in enumerate(zip(trip, rp, re_, rb)):
        tp, te, tb = out_text(x), out_text(y), out_text(z)
        if tp is None or te is None:
            if tp != te:
                viol.append({"site": "lines-differ", "detail": "a line is emitted in one mode and skipped in the other", "cfg": b.s(), "input": cs.text})
            continue
        if tb != tp:
            viol.append({"site": "fail-open", "detail": "with unusable key material the output is not the placeholder-mode output", "cfg": c.s(), "input": cs.text, "output": tb})
        for tok, role in cs.roles.items():
            if role in SENSITIVE_ROLES and tb and tok in tb:
                ts = token_leak_site(cs, tok)
                viol.append({"site": "fail-open:plaintext" + (":" + MLT_SITE if ts == MLT_SITE else ""), "detail": "sensitive %r emitted in clear when encryption cannot be performed" % tok, "cfg": c.s(), "input": cs.text, "token": tok})
        op, oe = parse_json(tp), parse_json(te)
        d = shape_diff(op, oe)
        if d:
            viol.append({"site": "shape:" + site_of(d[0]), "detail": "encrypt-mode and placeholder-mode outputs differ in shape: " + d[1], "cfg": b.s(), "input": cs.text})
            continue
        for (p, lp), (_, le), in zip(leaves(op), leaves(oe)):
            li = get_path(cs.tree, p)
            if lp == le and type(lp) == type(le):
                dist["same"] += 1
                continue
            if not (isinstance(lp, str) and isinstance(le, str) and not isinstance(lp, Num)):
                viol.append({"site": "equiv:nonstring:" + site_of(p), "detail": "non-string leaf differs between the modes: %r vs %r" % (lp, le), "cfg": b.s(), "input": cs.text})
                continue
            if lp == li:
                viol.append({"site": "equiv:kept-in-plain:" + site_of(p), "detail": "leaf kept by placeholder mode (%r) but changed by encrypt mode (%r)" % (lp, le), "cfg": b.s(), "input": cs.text})
                continue
            dist["ciphertext"] += 1
            decq.append((len(decq), le, li, p, cs, b))
            if isinstance(li, str):
                if li in seen_ct and seen_ct[li] != le:
                    viol.append({"site": "nondeterministic", "detail": "equal plaintexts %r gave different ciphertexts across lines" % li[:60], "cfg": b.s(), "input": cs.text})
                seen_ct[li] = le
    inv = {}
    for pt, ct in seen_ct.items():
        if ct in inv and inv[ct] != pt:
            viol.append({"site": "not-injective", "detail": "plaintexts %r and %r share a ciphertext" % (pt[:40], inv[ct][:40]), "input": pt})
        inv[ct] = pt
    ops = []
    for j, le, li, p, cs, b in decq:
        try:
            raw = base64.b64decode(le, validate=True)
        except Exception:
            viol.append({"site": "equiv:notbase64:" + site_of(p), "detail": "encrypt-mode leaf %r is not base64" % le[:60], "cfg": b.s(), "input": cs.text})
            continue
        ops.append((str(j), ["dec", hx(HARNESS_KEY), hx(raw)]))
    res = go_exec(ops)
    for j, le, li, p, cs, b in decq:
        r = res.get(str(j))
        if r is None:
            continue
        if not r.startswith("ok ") or unhxb(r[3:]).decode("utf-8", "replace") != li:
            viol.append({"site": "equiv:decrypt:" + site_of(p), "detail": "encrypt-mode leaf does not decrypt to the input leaf %r (%s)" % (str(li)[:60], r[:40]), "cfg": b.s(), "input": cs.text})
    # HISTORY: a value that an earlier run with the same key produced (a log that is redacted a second time, a ciphertext pasted into a
    # query) is a literal like any other - encrypted again, to a ciphertext that decrypts to it; and the plaintext next to it gets the
    # ciphertext it got in the earlier run
    import tempfile, shutil
    hw = tempfile.mkdtemp(prefix="verif_c10h_")
    try:
        hkey = os.path.join(hw, "k.key")
        vals = ["alice-7", "zqhistoryvalue", "Z" * 40, "a@b.example"]
        mk = lambda vs: to_json(Obj([("c", "COMMAND"), ("msg", "Slow query"), ("attr", Obj([("ns", "d.c"), ("command", Obj([("find", "c"), ("filter", Obj([("f%d" % i, v) for i, v in enumerate(vs)]))]))]))])) + "\n"
        open(os.path.join(hw, "in1.log"), "w").write(mk(vals))
        rc1, _, se1 = run_cli(["redact", os.path.join(hw, "in1.log"), "-o", os.path.join(hw, "out1.log"), "--encrypt", "--encryptionKeyFile", hkey], cwd=hw)
        if rc1 == 0:
            f1 = get_path(parse_json(open(os.path.join(hw, "out1.log"), encoding="utf-8").read()), ("attr", "command", "filter"))
            cts1 = [f1.get("f%d" % i) for i in range(len(vals))]
            open(os.path.join(hw, "in2.log"), "w").write(mk(vals + cts1))
            rc2, _, se2 = run_cli(["redact", os.path.join(hw, "in2.log"), "-o", os.path.join(hw, "out2.log"), "--encrypt", "--encryptionKeyFile", hkey], cwd=hw)
            if rc2 == 0:
                f2 = get_path(parse_json(open(os.path.join(hw, "out2.log"), encoding="utf-8").read()), ("attr", "command", "filter"))
                for i, v in enumerate(vals):
                    if f2.get("f%d" % i) != cts1[i]:
                        viol.append({"site": "history:not-deterministic", "detail": "the same plaintext under the same key file gets another ciphertext in a second run", "cfg": "-", "cli_flags": ["--encrypt"], "input": v})
                for j, ct in enumerate(cts1):
                    got = f2.get("f%d" % (len(vals) + j))
                    if got == ct:
                        viol.append({"site": "history:ciphertext-kept", "detail": "a literal that is a ciphertext of an earlier run is emitted unchanged (in clear: it is what the client sent), so two different literals - %r and its ciphertext - share one output" % vals[j], "cfg": "-", "cli_flags": ["--encrypt"], "input": ct})
                        continue
                    rcd, sod, sed = run_cli(["decrypt", got or "", "--decryptionKeyFile", hkey], cwd=hw)
                    if rcd != 0 or not sod.endswith(("Raw value: " + ct + "\n").encode()):
                        viol.append({"site": "history:ciphertext-of-ciphertext", "detail": "the output for a literal that is itself a ciphertext does not decrypt to that literal (exit %d, %r)" % (rcd, sod[-80:]), "cfg": "-", "cli_flags": ["--encrypt"], "input": ct})
    finally:
        shutil.rmtree(hw, ignore_errors=True)
    # separate processes: same key, same input -> same bytes
    sample = [(cs, b) for cs, a, b, c in trip[:40]]
    again = run_lines(sample)
    for (cs, b), y1, y2 in zip(sample, re_[:40], again):
        if y1 != y2:
            viol.append({"site": "nondeterministic:process", "detail": "two separate processes produced different encrypt-mode output", "cfg": b.s(), "input": cs.text})
    # separate runs of the real CLI with ONE key reaching it in different ways: a regular file, a symbolic link to it, a FIFO
    # (process substitution), a path through a symlinked directory - the ciphertexts must be the same, or the run must fail
    import tempfile, shutil, threading
    work = tempfile.mkdtemp(prefix="verif_c10_")
    extra = 0
    try:
        inp = os.path.join(work, "in.log")
        open(inp, "w", encoding="utf-8").write("\n".join(cs.text for cs, a, b, c in trip[:6] if "\n" not in cs.text) + "\n")
        # "one key file": a run that FAILS part-way (an over-long line / a damaged gzip stream after the first lines) with a key
        # path that does not exist yet, then a normal run with the same key path: the ciphertexts the failed run has already
        # written must be under the key that the later run uses (equal plaintext -> equal ciphertext), and must decrypt with it
        first = trip[0][0].text if "\n" not in trip[0][0].text else cmd_probe_line()
        for kind_ in ("toolong", "gzcut"):
            kp = os.path.join(work, "fresh-%s.key" % kind_)
            if kind_ == "toolong":
                f1 = os.path.join(work, "fail1.log")
                open(f1, "wb").write(first.encode("utf-8") + b"\n" + b'{"x":"' + b"y" * 70000 + b'"}\n' + first.encode("utf-8") + b"\n")
            else:
                import gzip as _gz
                f1 = os.path.join(work, "fail1.log.gz")
                blob = _gz.compress((first + "\n").encode("utf-8") * 400)
                open(f1, "wb").write(blob[: len(blob) - 9])
            f2 = os.path.join(work, "ok2.log")
            open(f2, "wb").write(first.encode("utf-8") + b"\n")
            o1, o2 = os.path.join(work, "o1-" + kind_), os.path.join(work, "o2-" + kind_)
            rc1, _, se1 = run_cli(["redact", f1, "-o", o1, "--encrypt", "--encryptionKeyFile", kp], cwd=work, timeout=60)
            rc2, _, se2 = run_cli(["redact", f2, "-o", o2, "--encrypt", "--encryptionKeyFile", kp], cwd=work, timeout=60)
            extra += 2
            dist["failed-then-ok:%s:%d,%d" % (kind_, rc1, rc2)] += 1
            b1 = open(o1, "rb").read() if os.path.exists(o1) else b""
            b2 = open(o2, "rb").read() if os.path.exists(o2) else b""
            l1 = b1.split(b"\n")[0] if b"\n" in b1 else b""
            l2 = b2.split(b"\n")[0] if b"\n" in b2 else b""
            if rc2 != 0:
                viol.append({"site": "runs:second-run-failed", "detail": "after a failed first run (%s, exit %d) the second run with the same key path fails: %s" % (kind_, rc1, se2[-200:].decode("utf-8", "replace")), "cfg": "--encrypt", "input": first})
            elif l1 and l1 != l2:
                viol.append({"site": "runs:failed-run-other-key", "detail": "a run that failed part-way (%s, exit %d) had already written ciphertexts; the next run with the SAME key file path encrypts the same line differently (the failed run's key was not the one on disk)" % (kind_, rc1),
                             "cfg": "--encrypt", "input": first, "output": l1[:300].decode("utf-8", "replace") + "  ||  " + l2[:300].decode("utf-8", "replace")})
        os.mkdir(os.path.join(work, "kd"))
        reg = os.path.join(work, "kd", "k.key")
        open(reg, "wb").write(base64.b64encode(HARNESS_KEY))
        os.symlink(reg, os.path.join(work, "link.key"))
        os.symlink(os.path.join(work, "kd"), os.path.join(work, "kdlink"))
        fifo = os.path.join(work, "fifo.key")
        os.mkfifo(fifo)
        outs = {}
        # process substitution, `-q <(cat key)`: the key arrives on an inherited pipe named /dev/fd/N
        rfd, wfd = os.pipe()
        os.write(wfd, base64.b64encode(HARNESS_KEY))
        os.close(wfd)
        e = dict(os.environ)
        e.pop("VERIF_HARNESS", None)
        outp = os.path.join(work, "out-procsubst")
        try:
            with open("/dev/null", "rb") as dn:
                p = subprocess.run([harness_bin(), "redact", inp, "-o", outp, "--encrypt", "--encryptionKeyFile", "/dev/fd/%d" % rfd], stdin=dn, capture_output=True, env=e, cwd=work, timeout=20, pass_fds=(rfd,))
            rcp = p.returncode
        except subprocess.TimeoutExpired:
            rcp = -9
        os.close(rfd)
        extra += 1
        dist["key-via:procsubst"] += 1
        outs["process substitution (/dev/fd/N)"] = (rcp, open(outp, "rb").read() if os.path.exists(outp) else None)
        for how, path in (("regular", reg), ("symlink", os.path.join(work, "link.key")), ("dir-symlink", os.path.join(work, "kdlink", "k.key")), ("fifo", fifo), ("regular-again", reg)):
            outp = os.path.join(work, "out-" + how)
            th = None
            if how == "fifo":
                def feed():
                    try:
                        with open(fifo, "wb") as fh:      # blocks until the tool opens the pipe for reading
                            fh.write(base64.b64encode(HARNESS_KEY))
                    except OSError:
                        pass
                th = threading.Thread(target=feed, daemon=True)
                th.start()
            try:
                rc, so, se = run_cli(["redact", inp, "-o", outp, "--encrypt", "--encryptionKeyFile", path], cwd=work, timeout=20)
            except subprocess.TimeoutExpired:
                rc, se = -9, b"timeout (the tool never read the key from the pipe)"
            if th is not None:
                # release a feeder that nobody read from
                try:
                    fd = os.open(fifo, os.O_RDONLY | os.O_NONBLOCK)
                    time.sleep(0.2)
                    try:
                        os.read(fd, 4096)
                    except OSError:
                        pass
                    os.close(fd)
                except OSError:
                    pass
                th.join(timeout=2)
            extra += 1
            dist["key-via:" + how] += 1
            outs[how] = (rc, open(outp, "rb").read() if os.path.exists(outp) else None)
        ref = outs["regular"]
        if ref[0] != 0 or not ref[1]:
            viol.append({"site": "cli:encrypt-run-failed", "detail": "exit %d" % ref[0], "input": open(inp).read()[:200]})
        else:
            for how, (rc, data) in outs.items():
                if rc == -9:
                    viol.append({"site": "key-via-" + how.split(" ")[0] + ":hang", "detail": "the key given as a %s: the run neither finished nor failed within 20 s" % how, "input": open(inp).read()[:300]})
                if rc == 0 and data != ref[1]:
                    viol.append({"site": "nondeterministic:key-via-" + how, "detail": "the same key given as a %s: exit 0 but the ciphertexts differ from those of the run that read it from a regular file (another key was used)" % how,
                                 "input": open(inp).read()[:300], "cli_flags": ["redact", "in.log", "-o", "out", "--encrypt", "--encryptionKeyFile", "<" + how + ">"]})
            if open(reg, "rb").read() != base64.b64encode(HARNESS_KEY):
                viol.append({"site": "key-file-changed", "detail": "the key file was modified by a run that used it", "input": ""})
        # Atlas mode with --encrypt: the logs of several hosts are processed one after the other in ONE run; hosts holding the same
        # entries must come out with the same ciphertexts (one key for the whole run), equal to those of a plain-file run
        import fakeatlas
        plain = open(inp, "rb").read()
        kf = os.path.join(work, "atlas.key")
        open(kf, "wb").write(base64.b64encode(HARNESS_KEY))
        hs = ["e0.example.net:27017", "e1.example.net:27017", "e2.example.net:27017"]
        sc = fakeatlas.Scenario(hs, [fakeatlas.gz(plain) for _ in hs])
        r = run_atlas(sc, work, flags=["--encrypt", "--encryptionKeyFile", kf])
        extra += 1
        base_ = os.path.basename(r["out"])
        got = [r["outputs"].get("%s.%d" % (base_, i)) for i in range(len(hs))]
        dist["atlas-encrypt-hosts"] += len(hs)
        if r["rc"] != 0 or any(g is None for g in got):
            viol.append({"site": "atlas-encrypt:failed", "detail": "Atlas job with --encrypt over %d hosts: exit %d, outputs %r: %s" % (len(hs), r["rc"], sorted(r["outputs"]), r["stderr"][-200:]), "input": plain.decode("utf-8", "replace")[:300], "cli_flags": r["args"][1:]})
        else:
            for i, g in enumerate(got):
                if g != got[0] or (ref[0] == 0 and ref[1] and g != ref[1]):
                    viol.append({"site": "nondeterministic:atlas-host-%s" % ("first" if i == 0 else "later"), "detail": "Atlas job with --encrypt: %d hosts hold the same log, but the output of host %d differs from %s (same key file, same plaintexts: same ciphertexts)" % (len(hs), i, "that of host 0" if g != got[0] else "a plain-file run with the same key"),
                                 "input": plain.decode("utf-8", "replace")[:300], "cli_flags": r["args"][1:]})
    finally:
        shutil.rmtree(work, ignore_errors=True)
    return result(viol, 3 * len(trip) + len(ops) + extra, dist["ciphertext"], "separate CLI runs with one key reaching the tool as a regular file / symbolic link / through a symlinked directory / FIFO: same ciphertexts or a failure; grammar lines with repeated literals under placeholder mode, encrypt mode (real AES-SIV key) and encrypt mode with unusable 10-byte key material; leaf-wise: equal, or placeholder in one and a ciphertext decrypting to the input leaf in the other; equal plaintexts <-> equal ciphertexts across lines and processes; distinct_nontrivial = ciphertext leaves decrypted and compared",
                  dist, [{"line": trip[0][0].text[:300]}])


ORACLES["C09"] = oracle_c09
ORACLES["C10"] = oracle_c10


# ------------------------------------------------------------------------------------------- C04

ZONE_KEYS = {"query", "filter", "sort", "q", "update", "u", "updates", "deletes", "arrayFilters", "documents", "pipeline", "updateMods", "document"}
CMD_ATTRS = ("command", "cmd", "originatingCommand")
# namespace-bearing command fields as the PROPERTY lists them (C12): verb value, $db, getMore's collection
NS_FIELDS_SPEC = {"find", "aggregate", "insert", "update", "delete", "count", "findAndModify", "collection", "$db", "distinct",
                  "findOneAndDelete", "findOneAndReplace", "findOneAndUpdate", "replace", "getIndexes", "countDocuments", "ns"}
EXOTIC_NUMS = ["18446744073709551615", "-9223372036854775808", "1.0", "0.50", "1.5E3", "-0", "1e400", "0.1000000000000000055511151231257827",
               "123456789012345678901234567890", "2.50e+3", "-0.0", "1E-7", "0e0"]
EXOTIC_STRS = ["", "tab\there", "quote\"back\\slash", "nl\nline", "ünï çødé 😀", "<html>&amp;", "  ", "$notaref", "a@b.co", "\u0001\u001f",
               "REDACTED", "255.255.255.255:65535"]


def decorate(tree, rng):
    """sprinkle exotic number literals / strings over positions OUTSIDE the zones: top level, attr, non-zone command fields"""
    t = Obj(list(tree))
    t.set("zqx", Obj([("n%d" % i, Num(rng.choice(EXOTIC_NUMS))) for i in range(3)] + [("s", rng.choice(EXOTIC_STRS)), ("arr", [Num(rng.choice(EXOTIC_NUMS)), [rng.choice(EXOTIC_STRS), None, True]])]))
    attr = t.get("attr")
    if isinstance(attr, Obj):
        a = Obj(list(attr))
        a.set("zqnum", Num(rng.choice(EXOTIC_NUMS)))
        a.set("zqstr", rng.choice(EXOTIC_STRS))
        a.set("zqdoc", Obj([("filter", Obj([("kept", "zq-not-a-zone")])), ("pipeline", [Obj([("$match", Obj([("k", Num(rng.choice(EXOTIC_NUMS)))]))])])]))
        if rng.chance(1, 3):
            a.set(rng.choice(["collection", "count", "update", "find", "$db"]), rng.choice(["zqattrcoll", Num("7")]))   # look-alike attribute names
        for ck in CMD_ATTRS:
            cd = a.get(ck)
            if isinstance(cd, Obj):
                c2 = Obj(list(cd))
                c2.set("maxTimeMS", Num(rng.choice(EXOTIC_NUMS)))
                c2.set("comment", rng.choice(EXOTIC_STRS))
                c2.set("hint", Obj([("zqhintfield", Num(rng.choice(EXOTIC_NUMS)))]))
                c2.set("readConcern", Obj([("level", "majority"), ("afterClusterTime", Obj([("$timestamp", Obj([("t", Num("1700000000")), ("i", Num("1"))]))]))]))
                a.set(ck, c2)
        t.set("attr", a)
    return t


def frame_diff(inp, out, cfg, eager_on):
    """first difference between input and output OUTSIDE the positions C04 allows to change; None if clean.
    returns (path, description)"""
    def same(a, b, path):
        # exact equality: kinds, keys+order, string contents, number TEXT
        ka, kb = kind(a), kind(b)
        if ka != kb:
            return (path, "kind %s -> %s" % (ka, kb))
        if ka == "obj":
            if a.keys() != b.keys():
                return (path, "keys %r -> %r" % (a.keys()[:8], b.keys()[:8]))
            for (k, va), (_, vb) in zip(a, b):
                d = same(va, vb, path + (k,))
                if d:
                    return d
        elif ka == "arr":
            if len(a) != len(b):
                return (path, "len %d -> %d" % (len(a), len(b)))
            for i, (va, vb) in enumerate(zip(a, b)):
                d = same(va, vb, path + (i,))
                if d:
                    return d
        elif ka == "num":
            if str(a) != str(b):
                return (path, "number literal %s -> %s" % (a, b))
        elif a != b:
            return (path, "%s %r -> %r" % (ka, a if not isinstance(a, str) else a[:60], b if not isinstance(b, str) else b[:60]))
        return None

    def operation_frame(ava, avb, p, top):
        """one operation document: everything but its query-bearing members (and, under -w, its namespace fields) must be kept;
        at the top also the operation wrapped by explain and the operations / namespaces of bulkWrite"""
        if kind(avb) != "obj" or ava.keys() != avb.keys():
            if not eager_on:
                return (p, "command keys changed")
        for (ck, cva), (_, cvb) in zip(ava, avb):
            if ck in ZONE_KEYS:
                continue
            if cfg.w and ck in NS_FIELDS_SPEC and isinstance(cva, str):
                continue
            if top and ck == "explain" and kind(cva) == "obj":
                d = operation_frame(cva, cvb, p + (ck,), False)
                if d:
                    return d
                continue
            if top and ck == "ops" and ava.has("bulkWrite") and kind(cva) == "arr":
                if kind(cvb) != "arr" or len(cva) != len(cvb):
                    return (p + (ck,), "ops changed length / kind")
                for i, (ea, eb) in enumerate(zip(cva, cvb)):
                    d = operation_frame(ea, eb, p + (ck, i), False) if kind(ea) == "obj" else same(ea, eb, p + (ck, i))
                    if d:
                        return d
                continue
            if top and cfg.w and ck == "nsInfo" and kind(cva) == "arr" and kind(cvb) == "arr" and len(cva) == len(cvb):
                for i, (ea, eb) in enumerate(zip(cva, cvb)):
                    if kind(ea) == "obj" and kind(eb) == "obj" and ea.keys() == eb.keys():
                        for (nk, nva), (_, nvb) in zip(ea, eb):
                            if nk in NS_FIELDS_SPEC | {"ns"} and isinstance(nva, str):
                                continue
                            d = same(nva, nvb, p + (ck, i, nk))
                            if d:
                                return d
                    else:
                        d = same(ea, eb, p + (ck, i))
                        if d:
                            return d
                continue
            d = same(cva, cvb, p + (ck,))
            if d:
                return d
        return None

    if kind(out) != "obj" or inp.keys() != out.keys():
        return ((), "top-level keys %r -> %r" % (inp.keys(), out.keys() if kind(out) == "obj" else kind(out)))
    comp = inp.get("c")
    gated = (isinstance(comp, str) and comp in ("COMMAND", "QUERY", "WRITE")) or inp.get("msg") == "Slow query"
    for (k, va), (_, vb) in zip(inp, out):
        if k != "attr" or kind(va) != "obj":
            d = same(va, vb, (k,))
            if d:
                return d
            continue
        if kind(vb) != "obj" or va.keys() != vb.keys():
            return (("attr",), "attr keys changed")
        for (ak, ava), (_, avb) in zip(va, vb):
            p = ("attr", ak)
            if ak == "remote" and cfg.i and isinstance(ava, str):
                continue
            if ak == "ns" and cfg.w and isinstance(ava, str):
                continue
            if ak == "planSummary" and eager_on and isinstance(ava, str):
                continue
            if ak in CMD_ATTRS and gated and kind(ava) == "obj":
                d = operation_frame(ava, avb, p, True)
                if d:
                    return d
                continue
            d = same(ava, avb, p)
            if d:
                return d
    return None


def kept_params(inp, out, path=(), depth=0, top_stage=None, in_zone=False):
    """$limit / $skip numeric arguments at any pipeline depth and the listed top-level stage parameters must be kept (number text)"""
    bad = []
    if isinstance(inp, Obj) and isinstance(out, Obj) and inp.keys() == out.keys():
        for (k, va), (_, vb) in zip(inp, out):
            if in_zone and k in ("$limit", "$skip") and isinstance(va, Num):
                if not (isinstance(vb, Num) and str(va) == str(vb)):
                    bad.append((path + (k,), "%s argument %s -> %r" % (k, va, vb)))
            bad += kept_params(va, vb, path + (k,), depth + 1, top_stage, in_zone or (k in ZONE_KEYS and len(path) >= 2 and path[0] == "attr" and path[1] in CMD_ATTRS and
                                                                                           (len(path) == 2 or (len(path) == 3 and path[2] == "explain") or (len(path) == 4 and path[2] == "ops"))))
    elif isinstance(inp, list) and isinstance(out, list) and len(inp) == len(out):
        for i, (va, vb) in enumerate(zip(inp, out)):
            bad += kept_params(va, vb, path + (i,), depth, top_stage, in_zone)
    return bad


def top_stage_params(inp, out):
    bad = []
    ai, ao = inp.get("attr"), out.get("attr") if isinstance(out, Obj) else None
    if not isinstance(ai, Obj) or not isinstance(ao, Obj):
        return bad
    for ck in CMD_ATTRS:
        ci, co = ai.get(ck), ao.get(ck)
        if not isinstance(ci, Obj) or not isinstance(co, Obj):
            continue
        pi, po = ci.get("pipeline"), co.get("pipeline")
        if not isinstance(pi, list) or not isinstance(po, list) or len(pi) != len(po):
            continue
        for i, (si, so) in enumerate(zip(pi, po)):
            if not isinstance(si, Obj) or not isinstance(so, Obj) or len(si) != 1 or si.keys() != so.keys():
                continue
            st, arg = si[0]
            argo = so[0][1]
            want = {"$sample": ["size"], "$search": ["index"], "$searchMeta": ["index"], "$vectorSearch": ["index", "numCandidates", "limit"]}.get(st)
            if want and isinstance(arg, Obj) and isinstance(argo, Obj):
                for w in want:
                    if arg.has(w) and isinstance(arg.get(w), (str, Num)) and not isinstance(arg.get(w), bool):
                        a, b = arg.get(w), argo.get(w)
                        if type(a) != type(b) or str(a) != str(b):
                            bad.append((("attr", ck, "pipeline", i, st, w), "top-level stage parameter %s.%s %r -> %r" % (st, w, a, b)))
    return bad


def oracle_c04(tables, seed, tier, deep):
    n = 1500 if (tier == "thorough" or deep) else 200
    rng = SplitMix(seed ^ 0xC04)
    cases = []
    for cs in grammar_cases(seed ^ 4, n):
        cases.append(Case(decorate(cs.tree, rng), cs.roles, cs.fields, cs.ns, "grammar"))
    for i in range(n // 2):
        cases.append(Case(decorate(other_line(rng, i), rng), kind="other"))
    for cs in misc_cases(tables, seed ^ 44, n // 4):
        cases.append(Case(decorate(cs.tree, rng), kind=cs.kind))
    cfgs = [Cfg(), Cfg(n=True, b=True), Cfg(i=True), Cfg(w=True), Cfg(n=True, b=True, i=True, w=True), Cfg(repl="X"), Cfg(enc=3), Cfg(re="^(zqnum|kept|k|a)$")]
    pairs = []
    for i, cs in enumerate(cases):
        for j in range(2):
            c = cfgs[(i * 2 + j) % len(cfgs)]
            pairs.append((cs, c))
        if cs.ns and i % 3 == 0:
            pairs.append((cs, Cfg(eager=(cs.ns.split(".")[0],), n=True)))
            pairs.append((cs, Cfg(eager=("zq_other_namespace",), i=True)))
    res = run_lines(pairs)
    viol, dist = [], collections.Counter()
    distinct = set()
    for (cs, c), r in zip(pairs, res):
        t = out_text(r)
        if has_dups(cs.tree):
            continue
        dist[cs.kind] += 1
        distinct.add(cs.text)
        if t is None:
            viol.append({"site": "frame:noline", "detail": "valid line produced no output: " + r[:80], "cfg": c.s(), "cli_flags": c.cli(), "input": cs.text})
            continue
        try:
            o = parse_json(t)
        except Exception as e:
            viol.append({"site": "frame:badjson", "detail": str(e), "cfg": c.s(), "cli_flags": c.cli(), "input": cs.text, "output": t})
            continue
        ns = get_path(cs.tree, ("attr", "ns"))
        eager_on = any(isinstance(ns, str) and ns.startswith(p) for p in c.eager)
        d = frame_diff(cs.tree, o, c, eager_on)
        if d:
            viol.append({"site": "frame:" + site_of(d[0]), "detail": d[1], "cfg": c.s(), "cli_flags": c.cli(), "input": cs.text, "output": t})
            continue
        if not eager_on:
            for pth, what in kept_params(cs.tree, o) + top_stage_params(cs.tree, o):
                viol.append({"site": "kept:" + site_of(pth), "detail": what, "cfg": c.s(), "cli_flags": c.cli(), "input": cs.text, "output": t})
    return result(viol, len(pairs), len(distinct), "grammar / other-component / arbitrary lines decorated with exotic number literals and strings outside the zones, x flag sets; exact tree comparison (number TEXT, key order) of everything outside the zones, the namespace fields (-w), attr.remote (-i), attr.planSummary (eager); $limit/$skip and top-level stage parameters inside",
                  dist, [pairs[0][0].text[:400]] if pairs else [])


ORACLES["C04"] = oracle_c04


# ------------------------------------------------------------------------------------------- C12

def py_hash_name(repl, name):
    """independent re-implementation of the pseudonym function (statement of C13)"""
    import hashlib
    n = name.lstrip("$")
    return ".".join("%s_%s" % (repl, hashlib.sha256(part.encode("utf-8", "surrogatepass")).hexdigest()[:16]) for part in n.split("."))


def leaf_diffs(a, b, inp=None, path=()):
    """all positions where trees a and b differ, walking the input tree `inp` alongside POSITIONALLY (keys may be renamed);
    entries: (path, leaf_a, leaf_b, why, input_leaf)"""
    ka, kb = kind(a), kind(b)
    if ka != kb:
        return [(path, a, b, "kind", inp)]
    if ka == "obj":
        if a.keys() != b.keys():
            return [(path, None, None, "keys %r vs %r" % (a.keys()[:6], b.keys()[:6]), None)]
        out = []
        ok = isinstance(inp, Obj) and len(inp) == len(a)
        for i, ((k, va), (_, vb)) in enumerate(zip(a, b)):
            out += leaf_diffs(va, vb, inp[i][1] if ok else None, path + (k,))
        return out
    if ka == "arr":
        if len(a) != len(b):
            return [(path, None, None, "len", None)]
        out = []
        ok = isinstance(inp, list) and not isinstance(inp, Obj) and len(inp) == len(a)
        for i, (va, vb) in enumerate(zip(a, b)):
            out += leaf_diffs(va, vb, inp[i] if ok else None, path + (i,))
        return out
    if ka == "num":
        return [] if str(a) == str(b) else [(path, a, b, "num", inp)]
    return [] if a == b else [(path, a, b, "leaf", inp)]


def oracle_c12(tables, seed, tier, deep):
    n = 1500 if (tier == "thorough" or deep) else 220
    rng = SplitMix(seed ^ 0xC12)
    cases = grammar_cases(seed ^ 12, n)
    extra = []
    for i, cs in enumerate(cases[: n // 4]):
        # the same line as another component / without any command document: attr.ns must still be pseudonymised
        t = Obj(list(cs.tree))
        ungate = i % 3 == 0
        a = Obj([(k, v) for k, v in t.get("attr") if k not in CMD_ATTRS or (i % 2 == 0 and not ungate)])
        t.set("attr", a)
        t.set("c", "NETWORK" if ungate else t.get("c"))
        t.set("msg", "something else" if ungate else t.get("msg"))
        extra.append(Case(t, cs.roles, cs.fields, cs.ns, "ns-variant"))
    cases += extra
    pairs = []
    for i, cs in enumerate(cases):
        # (selective expressions that NAME the namespace-bearing arguments, and one that matches every name: another mode's rule may
        #  not take precedence over the pseudonym)
        base = [Cfg(), Cfg(n=True, b=True, i=True), Cfg(repl="X"), Cfg(re="^zq_nomatch$"), Cfg(repl="p.q_r"), Cfg(enc=3),
                Cfg(re="^(from|coll|into|db|to|ns|collection|find|aggregate|count|distinct|\\$db|\\$out|\\$merge|\\$unionWith|\\$lookup)$"), Cfg(re="."), Cfg(re="^(from|into)$", n=True)][i % 9]
        if i % 7 == 3 and cs.ns:
            # with --redactFieldNames: whole database, database with its dot, the exact namespace, a prefix cut inside a component
            db = cs.ns.split(".")[0]
            base = Cfg(eager=([db], [db + "."], [cs.ns], [cs.ns[:-1]], [db[:-1]], ["zz", cs.ns[:-2]])[(i // 7) % 6])
        pairs.append((cs, base))
    on = [(cs, Cfg(c.repl, c.n, c.b, c.i, True, c.eager, c.re, c.enc)) for cs, c in pairs]
    r_off = run_lines(pairs)
    r_on = run_lines(on)
    viol, dist = [], collections.Counter()
    names_checked = 0
    for (cs, c0), (_, c1), a, b in zip(pairs, on, r_off, r_on):
        ta, tb = out_text(a), out_text(b)
        if has_dups(cs.tree):
            continue
        dist[cs.kind] += 1
        if ta is None or tb is None:
            viol.append({"site": "ns:noline", "detail": "no output line", "cfg": c1.s(), "cli_flags": c1.cli(), "input": cs.text})
            continue
        # (1) absence of every planted database / collection name
        for tok, role in cs.roles.items():
            if role != "NS":
                continue
            names_checked += 1
            if tok in tb:
                where = [(p, l) for p, l in leaves(cs.tree) if isinstance(l, str) and tok in l]
                # an occurrence that is not a namespace position at all (e.g. the name also used as a plain value) is not ours
                viol.append({"site": "ns-leak:" + site_of(where[0][0] if where else ()), "detail": "name %r survives with --redactNamespaces" % tok,
                             "cfg": c1.s(), "cli_flags": c1.cli(), "input": cs.text, "output": tb})
        # (2) consistency + confinement: the flag changes string leaves into THE pseudonym of what was there, and nothing else
        try:
            oa, ob = parse_json(ta), parse_json(tb)
        except Exception as e:
            viol.append({"site": "ns:badjson", "detail": str(e), "cfg": c1.s(), "input": cs.text})
            continue
        for pth, x, y, why, orig in leaf_diffs(oa, ob, dedupe(cs.tree)):
            # the flag may change a string leaf into THE pseudonym of the input string at that position, nothing else
            if why == "leaf" and isinstance(orig, str) and isinstance(y, str) and y == py_hash_name(c1.repl, orig):
                dist["pseudonymised"] += 1
                continue
            viol.append({"site": "ns-diff:" + site_of(pth), "detail": "flag-on output differs from flag-off output other than by name -> pseudonym(name): %s %r -> %r" % (why, x, y),
                         "cfg": c1.s(), "cli_flags": c1.cli(), "input": cs.text, "output_off": ta, "output": tb})
        # (2b) consistency: a leaf that IS a planted name (or names joined by dots) and comes out changed must come out as THE pseudonym -
        # also where the flag-off run already replaced it by something else (another mode's rule may not take precedence)
        nstoks = {tok for tok, role in cs.roles.items() if role == "NS"}
        if nstoks and not has_dups(cs.tree):
            for pth, leaf in leaves(dedupe(cs.tree)):
                if isinstance(leaf, str) and not isinstance(leaf, Num) and leaf and all(part in nstoks for part in leaf.split(".")):
                    try:
                        got = get_path(ob, pth)
                    except Exception:
                        continue
                    if isinstance(got, str) and got != leaf and got != py_hash_name(c1.repl, leaf):
                        viol.append({"site": "ns-inconsistent:" + site_of(pth), "detail": "the name %r comes out as %r, not as its pseudonym %r: references to it from other fields and lines are lost" % (leaf, got, py_hash_name(c1.repl, leaf)),
                                     "cfg": c1.s(), "cli_flags": c1.cli(), "input": cs.text, "output": tb})
        # (3) attr.ns on every line that has one
        nsv = get_path(cs.tree, ("attr", "ns"))
        if isinstance(nsv, str):
            got = get_path(ob, ("attr", "ns"))
            if got != py_hash_name(c1.repl, nsv):
                viol.append({"site": "ns:attr.ns", "detail": "attr.ns %r -> %r, expected %r" % (nsv, got, py_hash_name(c1.repl, nsv)), "cfg": c1.s(), "cli_flags": c1.cli(), "input": cs.text, "output": tb})
    return result(viol, 2 * len(pairs), names_checked, "grammar lines (+ the same lines as another component / without command document) run with and without --redactNamespaces under the same other flags; planted db / collection names must be absent; every difference between the two outputs must be string -> independent_pseudonym(string); distinct_nontrivial = planted names checked",
                  dist, [pairs[0][0].text[:400]] if pairs else [])


ORACLES["C12"] = with_many_names(oracle_c12)


# ------------------------------------------------------------------------------------------- C14

SEARCH_STAGES = {"$search", "$searchMeta", "$vectorSearch", "$rankFusion"}


def zone_leaves(tree):
    """(path, names_on_path_from_zone_root, in_search_stage, sibling_refs, leaf) for every scalar leaf inside a redaction zone of a gated line.
    names: the string keys from the root of the filter / update / document / stage down to the leaf (arrays are transparent);
    sibling_refs: '$field' strings that are elements of the same array as the leaf"""
    out = []
    attr = tree.get("attr") if isinstance(tree, Obj) else None
    if not isinstance(attr, Obj):
        return out

    def walk(t, path, names, search, sibs):
        if isinstance(t, Obj):
            for k, v in t:
                s2 = search or (len(names) == 0 and k in SEARCH_STAGES)
                walk(v, path + (k,), names + [k], s2, [])
        elif isinstance(t, list):
            refs = [e[1:] for e in t if isinstance(e, str) and e.startswith("$")]
            for i, v in enumerate(t):
                walk(v, path + (i,), names, search, refs if not isinstance(v, (Obj, list)) else [])
        else:
            out.append((path, names, search, sibs, t))

    for ck in CMD_ATTRS:
        cmd = attr.get(ck)
        if not isinstance(cmd, Obj):
            continue
        for zk, zv in cmd:
            if zk not in ZONE_KEYS or (zk == "documents" and not cmd.has("insert")):
                continue
            base = ("attr", ck, zk)
            if zk == "pipeline" and isinstance(zv, list) and not isinstance(zv, Obj):
                for i, st in enumerate(zv):
                    walk(st, base + (i,), [], False, [])
            elif isinstance(zv, Obj):
                walk(zv, base, [], False, [])
            elif isinstance(zv, list):
                for i, e in enumerate(zv):
                    walk(e, base + (i,), [], False, [])
    return out


def oracle_c14(tables, seed, tier, deep):
    n = 2000 if (tier == "thorough" or deep) else 260
    rng = SplitMix(seed ^ 0xC14)
    cases = [cs for cs in grammar_cases(seed ^ 14, n) if cs.fields]
    pairs = []
    # directed: literals in array-valued fields, $in / $nin / $all / $each, arrays of sub-documents, '$field' siblings -
    # in a find filter, an update, and in $match / $addFields / $project stages; the expression matches exactly one name
    def dline(cmd):
        return Obj([("c", "COMMAND"), ("msg", "Slow query"), ("attr", Obj([("ns", "d.c"), ("command", cmd)]))])
    shapes = lambda: [["zq1xs", "zq2xs"], Obj([("$in", ["zq1xs", "zq2xs"])]), Obj([("$nin", ["zq1xs"])]), Obj([("$all", [["zq1xs"], "zq2xs"])]), [Obj([("sub", "zq1xs")]), Obj([("sub", ["zq2xs"])])],
                       Obj([("$elemMatch", Obj([("sub", Obj([("$in", ["zq1xs"])]))]))]), "zq1xs", Obj([("inner", Obj([("deep", ["zq1xs", ["zq2xs"]])]))])]
    roles = {"zq1xs": "S", "zq2xs": "S"}
    for sh in shapes():
        for name, rx in (("tags", "^tags$"), ("tags", "^other$"), ("a.tags", "tags"),
                         # a `$` INSIDE a key (positional operators of an update path; legal in field names): still a name
                         ("contacts.$.tags", "tags"), ("contacts.$[e].tags", "tags$"), ("contacts.$[].tagsHistory", "tags"), ("a$tags", "tags$")):
            for cmd in (Obj([("find", "c"), ("filter", Obj([(name, sh), ("keep", "zq3xs")]))]),
                        Obj([("aggregate", "c"), ("pipeline", [Obj([("$match", Obj([(name, sh), ("keep", "zq3xs")]))])])]),
                        Obj([("aggregate", "c"), ("pipeline", [Obj([("$addFields", Obj([(name, sh)]))]), Obj([("$project", Obj([("keep", "zq3xs"), (name, sh)]))])])]),
                        Obj([("update", "c"), ("updates", [Obj([("q", Obj([(name, sh)])), ("u", Obj([("$push", Obj([(name, Obj([("$each", ["zq1xs", "zq2xs"])]))]))]))])])])):
                pairs.append((Case(dline(cmd), dict(roles, zq3xs="S"), [name], "d.c", "directed"), Cfg(re=rx), rx))
    for i, cs in enumerate(cases):
        fs = [f for f in cs.fields]
        pick = [rng.choice(fs)] + ([rng.choice(fs)] if rng.chance(1, 2) else [])
        comps = []
        for f in pick:
            comps += [f] if rng.chance(1, 2) else [rng.choice(f.split("."))]
        # keep the expression inside the common subset of RE2 and Python syntax: names reduced to their token part
        comps = [TOK.search(x).group(0) if TOK.search(x) else "zqnone" for x in comps]
        k = i % 5
        if k == 0:
            rx = "^(" + "|".join(comps) + ")$"
        elif k == 1:
            rx = "|".join(pyre.escape(x) for x in comps)            # unanchored: matches dotted keys containing the name
        elif k == 2:
            rx = "^zq_never_a_field$"
        elif k == 3:
            rx = "^" + pyre.escape(comps[0])
        else:
            rx = pyre.escape(comps[0]) + "$"
        c = [Cfg(re=rx), Cfg(re=rx, n=True, b=True), Cfg(re=rx, repl="X"), Cfg(re=rx, i=True)][i % 4]
        pairs.append((cs, c, rx))
    res = run_lines([(cs, c) for cs, c, _ in pairs])
    viol, dist = [], collections.Counter()
    checked = 0
    for (cs, c, rx), r in zip(pairs, res):
        t = out_text(r)
        if has_dups(cs.tree):
            continue
        if t is None:
            viol.append({"site": "sel:noline", "detail": "no output", "cfg": c.s(), "cli_flags": c.cli(), "input": cs.text})
            continue
        try:
            o = parse_json(t)
        except Exception as e:
            viol.append({"site": "sel:badjson", "detail": str(e), "cfg": c.s(), "input": cs.text, "output": t})
            continue
        R = go_re(rx)
        for path, names, search, sibs, leaf in zone_leaves(cs.tree):
            got = get_path(o, path)
            matched = any(R.search(nm) for nm in names) or any(R.search(x) for x in sibs)
            checked += 1
            if search:
                dist["search-stage (may redact more)"] += 1
                continue
            if not matched:
                dist["unmatched"] += 1
                same = (type(got) == type(leaf)) and (str(got) == str(leaf) if isinstance(leaf, Num) else got == leaf)
                if not same:
                    viol.append({"site": "sel-keep:" + site_of(path), "detail": "no name on the path %r matches %r, but the literal %r was changed to %r" % (names, rx, leaf, got),
                                 "cfg": c.s(), "cli_flags": c.cli(), "input": cs.text, "output": t})
            else:
                dist["matched"] += 1
                if isinstance(leaf, str) and not isinstance(leaf, Num):
                    toks = [m.group(0) for m in TOK.finditer(leaf)]
                    sens = [x for x in toks if cs.roles.get(x) in SENSITIVE_ROLES]
                    if sens and not leaf.startswith("$") and isinstance(got, str) and any(x in got for x in sens):
                        viol.append({"site": "sel-redact:" + site_of(path), "detail": "a name on the path %r matches %r, but the literal %r survives as %r" % (names, rx, leaf, got),
                                     "cfg": c.s(), "cli_flags": c.cli(), "input": cs.text, "output": t})
    return result(viol, len(pairs), checked, "grammar lines x regexps built from their own field names (anchored, unanchored, prefix, suffix, never matching) x flag sets; every scalar leaf of every zone is compared with an independent path-based reference: names on the path from the zone root, '$field' siblings; distinct_nontrivial = leaves checked",
                  dist, [{"line": pairs[0][0].text[:300], "regexp": pairs[0][2]}] if pairs else [])


ORACLES["C14"] = oracle_c14


# ------------------------------------------------------------------------------------------- C15

def field_positions(tree, tok):
    """where a field-name token occurs in the input: list of (path, 'key' | 'value')"""
    out = []

    def walk(t, path):
        if isinstance(t, Obj):
            for k, v in t:
                if tok in k:
                    out.append((path + (k,), "key"))
                walk(v, path + (k,))
        elif isinstance(t, list):
            for i, v in enumerate(t):
                walk(v, path + (i,))
        elif isinstance(t, str) and tok in t:
            out.append((path, "value"))
    walk(tree, ())
    return out


def c15_site(path, how, tok):
    parts = []
    for p in path:
        if isinstance(p, int):
            continue
        parts.append(TOK.sub(lambda m: "<" + m.group(1) + ">", p))
    # keep the context that identifies the site: the zone key and the operator keys on the way, user names collapsed
    return "/".join(parts[1:]) + ":" + how


def c15_class(path, how):
    """site signature of a C15 violation: the CALL SITE in the code it belongs to, so that a different violation is still reported"""
    keys = [p for p in path if not isinstance(p, int)]
    if len(keys) > 3 and keys[2] in ("explain", "ops"):
        keys = keys[:2] + keys[3:]          # the operation wrapped by explain / an operation of bulkWrite goes through the same dispatch
    zone = keys[2] if len(keys) > 2 else ""
    if zone == "projection":
        return "fn:projection-document-not-walked"          # redactCommand has no dispatch for `projection`
    if zone == "key" and len(keys) == 3:
        return "fn:distinct-key-not-walked"                 # redactCommand has no dispatch for distinct's `key`
    if any(k in ("$search", "$searchMeta", "$vectorSearch") for k in keys) and keys[-1] in ("path", "defaultPath"):
        return "fn:search-path-argument-" + how             # FieldName branch of the stage walker: kept when keyPath is non-empty / generic placeholder below operator arrays
    if keys[-1:] == ["$unset"] and isinstance(path[-1], int):
        return "fn:field-name-array-argument-" + how        # array of names under a FieldName-typed argument goes through the array walker
    return "fn-%s:%s" % (how, c15_site(path, how, ""))


def oracle_c15(tables, seed, tier, deep):
    n = 2000 if (tier == "thorough" or deep) else 260
    rng = SplitMix(seed ^ 0xC15)
    cases = [cs for cs in grammar_cases(seed ^ 15, n) if cs.fields and isinstance(get_path(cs.tree, ("attr", "ns")), str)]
    viol, dist = [], collections.Counter()
    pairs_on, pairs_off, pairs_other = [], [], []
    for i, cs in enumerate(cases):
        ns = get_path(cs.tree, ("attr", "ns"))
        db = ns.split(".")[0]
        pref = [db, ns, db[: max(1, len(db) // 2)]][i % 3]
        base = [Cfg(), Cfg(n=True, b=True), Cfg(repl="X"), Cfg(i=True)][i % 4]
        pairs_on.append((cs, Cfg(base.repl, base.n, base.b, base.i, False, (pref,), None, 0)))
        pairs_off.append((cs, base))
        pairs_other.append((cs, Cfg(base.repl, base.n, base.b, base.i, False, ("zq_other_db." + pref, pref + "zq_longer_than_ns"), None, 0)))
    r_on, r_off, r_other = run_lines(pairs_on), run_lines(pairs_off), run_lines(pairs_other)
    names_checked = 0
    for (cs, c1), (_, c0), (_, c2), a, b, o in zip(pairs_on, pairs_off, pairs_other, r_on, r_off, r_other):
        if has_dups(cs.tree):
            continue
        ta, tb, to = out_text(a), out_text(b), out_text(o)
        dist["lines"] += 1
        # lines of other namespaces: exactly as without the flag
        if to != tb:
            viol.append({"site": "fn:other-namespace", "detail": "a --redactFieldNames path that is not a prefix of attr.ns changed the line", "cfg": c2.s(), "cli_flags": c2.cli(), "input": cs.text, "output": to, "output_off": tb})
        if ta is None:
            viol.append({"site": "fn:noline", "detail": "no output", "cfg": c1.s(), "cli_flags": c1.cli(), "input": cs.text})
            continue
        try:
            oa, ob = parse_json(ta), parse_json(tb)
        except Exception as e:
            viol.append({"site": "fn:badjson", "detail": str(e), "cfg": c1.s(), "input": cs.text, "output": ta})
            continue
        # completeness: no user field name of the zones remains anywhere in the line
        for tok, role in cs.roles.items():
            if role != "F":
                continue
            names_checked += 1
            if tok in ta:
                pos = field_positions(cs.tree, tok)
                outpos = field_positions(oa, tok)
                where = outpos[0] if outpos else (pos[0] if pos else ((), "?"))
                viol.append({"site": c15_class(where[0], "leak"), "detail": "field name %r remains in the line (%s at %s)" % (tok, where[1], "/".join(str(x) for x in where[0])),
                             "cfg": c1.s(), "cli_flags": c1.cli(), "input": cs.text, "output": ta})
        # consistency: the same name -> the same pseudonym = independent_pseudonym(name); sibling count / order kept; values as without the flag
        def cmp(x, y, inp, path):
            kx, ky = kind(x), kind(y)
            if kx != ky:
                return [(path, "kind %s vs %s" % (kx, ky))]
            if kx == "obj":
                if len(x) != len(y):
                    return [(path, "sibling count %d vs %d" % (len(x), len(y)))]
                out = []
                ok = isinstance(inp, Obj) and len(inp) == len(x)
                for i, ((k0, v0), (k1, v1)) in enumerate(zip(x, y)):
                    if k1 != k0 and k1 != py_hash_name(c1.repl, k0):
                        out.append((path + (k0,), "key %r renamed to %r, expected %r" % (k0, k1, py_hash_name(c1.repl, k0))))
                    out += cmp(v0, v1, inp[i][1] if ok else None, path + (k0,))
                return out
            if kx == "arr":
                if len(x) != len(y):
                    return [(path, "length")]
                out = []
                ok = isinstance(inp, list) and not isinstance(inp, Obj) and len(inp) == len(x)
                for i, (v0, v1) in enumerate(zip(x, y)):
                    out += cmp(v0, v1, inp[i] if ok else None, path + (i,))
                return out
            if kx == "str" and x != y:
                # allowed: the INPUT string at this position (a '$field' reference, or a field name given as a plain value:
                # $unset, $count, path arguments ...) became its pseudonym; anything else must be as without the flag
                if not (isinstance(inp, str) and y == py_hash_name(c1.repl, inp)) and path[-1:] != ("planSummary",):
                    return [(path, "input %r: without the flag %r, with the flag %r" % (inp if not isinstance(inp, str) else inp[:60], x[:60], y[:60]))]
            elif kx in ("num", "bool") and str(x) != str(y):
                return [(path, "value %r vs %r" % (x, y))]
            return []
        for pth, what in cmp(ob, oa, dedupe(cs.tree), ()):
            viol.append({"site": c15_class(pth, "diff"), "detail": "at %s: flag-on output differs from flag-off output other than by name -> pseudonym: %s" % ("/".join(str(x) for x in pth), what),
                         "cfg": c1.s(), "cli_flags": c1.cli(), "input": cs.text, "output": ta, "output_off": tb})
        # plan summary: every index key replaced by the pseudonym the filter uses
        ps = get_path(cs.tree, ("attr", "planSummary"))
        if isinstance(ps, str) and "IXSCAN" in ps:
            got = get_path(oa, ("attr", "planSummary"))
            exp = pyre.sub(r"(IXSCAN[\t\n\f\r ]*\{)([^}]+)(\})", lambda m: m.group(1) + ",".join(
                (lambda kv: kv[0].replace(go_trim(kv[0]), py_hash_name(c1.repl, go_trim(kv[0])), 1) + (":" + kv[1] if len(kv) > 1 else "") if go_trim(kv[0]) else ":".join(kv))(f.split(":", 1))
                for f in m.group(2).split(",")) + m.group(3), ps)
            if got != exp:
                viol.append({"site": "fn:planSummary", "detail": "plan summary %r -> %r, expected %r" % (ps, got, exp), "cfg": c1.s(), "cli_flags": c1.cli(), "input": cs.text, "output": ta})
    # a user field whose name coincides with a BARE (non-'$') key of the core operator table is taken for an operator by the
    # query walker and keeps its name: one case per bare key of the REGENERATED table (today: if / then / else, recorded)
    bare = [k for k, _ in tables["CoreOperators"]["map"] if not k.startswith("$")]
    bcases = []
    for k in bare:
        line = Obj([("c", "COMMAND"), ("msg", "Slow query"), ("attr", Obj([("ns", "shop.c"), ("command", Obj([("find", "c"), ("filter", Obj([(k, "zqv1xs"), ("zq2xf", Obj([(k, Num("5"))]))])),
                                                                                                               ("sort", Obj([(k, Num("1"))])), ("$db", "shop")]))]))])
        bcases.append((Case(line), Cfg(eager=("shop",)), k))
    for (cs, c, k), r in zip(bcases, run_lines([(cs, c) for cs, c, _ in bcases])):
        t = out_text(r)
        names_checked += 1
        if t is None:
            continue
        o = parse_json(t)
        filt = get_path(o, ("attr", "command", "filter"))
        if isinstance(filt, Obj) and k in filt.keys():
            viol.append({"site": "fn:bare-operator-key:" + k, "detail": "a user field named %r (a bare key of the core operator table) keeps its name under --redactFieldNames" % k,
                         "cfg": c.s(), "cli_flags": c.cli(), "input": cs.text, "output": t})
    return result(viol, 3 * len(pairs_on) + len(bcases), names_checked, "grammar lines run with a --redactFieldNames path that prefixes attr.ns, without the flag, and with paths that do not prefix it; planted field names must be absent from the whole line; flag-on vs flag-off tree comparison (renamed keys = independent pseudonym, sibling count/order, values, '$field' references); plan summary against an independent rewrite; distinct_nontrivial = field names checked",
                  dist, [pairs_on[0][0].text[:300]] if pairs_on else [])


ORACLES["C15"] = oracle_c15


# ------------------------------------------------------------------------------------------- C11

def oracle_c11(tables, seed, tier, deep):
    """whole-program: every initial state of the key path x run sequences; key bytes, mode, exit status, output file."""
    import tempfile, shutil, stat as pystat
    big = tier == "thorough" or deep
    rng = SplitMix(seed ^ 0xC11)
    viol, dist = [], collections.Counter()
    n = 0
    good = base64.b64encode(bytes(rng.below(256) for _ in range(64)))
    other = base64.b64encode(bytes(rng.below(256) for _ in range(64)))
    line1 = b'{"t":{"$date":"2024-01-01T00:00:00.000+00:00"},"s":"I","c":"COMMAND","id":1,"ctx":"c","msg":"Slow query","attr":{"ns":"d.c","command":{"find":"c","filter":{"name":"zqsecretvalue","mail":"Who@Example.org"},"$db":"d"}}}\n'
    line_long = b'{"c":"COMMAND","attr":{"command":{"filter":{"x":"' + b"y" * 70000 + b'"}}}}\n'
    # name -> (initial content or special, usable?, key bytes expected in force)
    states = {
        "absent": (None, True), "valid": (good, True), "valid-lf": (good + b"\n", True), "valid-crlf": (good + b"\r\n", True),
        "empty": (b"", False), "short": (base64.b64encode(b"k" * 32), False), "long": (base64.b64encode(b"k" * 65), False), "len96": (base64.b64encode(b"k" * 72), False),
        "not-base64": (b"!!!! not base64 !!!!", False), "valid-then-junk": (good + b"#junk-after-the-key", False), "two-keys": (good + other, False),
        "valid-then-space": (good + b" ", False), "binary-64": (bytes(rng.below(256) for _ in range(64)), False),
        "dir": ("DIR", False), "parent-missing": ("NOPARENT", False), "under-a-file": ("UNDERFILE", False), "dangling-symlink": ("DANGLING", True), "symlink-valid": ("SYMLINK", True),
        # the path as SPELLED decides: `gone/..` does not resolve when `gone` is missing (the kernel walks the path), whatever a lexical
        # clean-up of the text would make of it; an existing key behind such a spelling must stay as it is
        "valid-behind-missing-dotdot": ("DOTDOT_MISSING", False), "valid-behind-dotdot": ("DOTDOT_OK", True), "valid-double-slash": ("DSLASH", True),
    }
    seqs = [["ok"], ["ok", "ok"], ["ok", "ok", "ok"], ["abort", "ok"], ["ok", "abort"]] if big else [["ok", "ok"], ["abort", "ok"]]
    work = tempfile.mkdtemp(prefix="verif_c11_")
    try:
        for sname, (init, usable) in states.items():
            for seq in seqs:
                d = tempfile.mkdtemp(dir=work)
                key = os.path.join(d, "k.key")
                target = key
                if init == "DIR":
                    os.mkdir(key)
                elif init == "NOPARENT":
                    key = os.path.join(d, "nodir", "k.key")
                elif init == "UNDERFILE":
                    open(os.path.join(d, "plainfile"), "wb").write(b"x")
                    key = os.path.join(d, "plainfile", "k.key")
                elif init == "DANGLING":
                    target = os.path.join(d, "real.key")
                    os.symlink(target, key)
                elif init == "SYMLINK":
                    target = os.path.join(d, "real.key")
                    open(target, "wb").write(good)
                    os.chmod(target, 0o640)
                    os.symlink(target, key)
                elif init in ("DOTDOT_MISSING", "DOTDOT_OK", "DSLASH"):
                    os.mkdir(os.path.join(d, "keys"))
                    target = os.path.join(d, "keys", "k.key")
                    open(target, "wb").write(good)
                    os.chmod(target, 0o644)
                    if init == "DOTDOT_OK":
                        os.mkdir(os.path.join(d, "stage"))
                    key = {"DOTDOT_MISSING": d + "/gone/../keys/k.key", "DOTDOT_OK": d + "/stage/../keys/k.key", "DSLASH": d + "//keys///k.key"}[init]
                elif init is not None:
                    open(key, "wb").write(init)
                    os.chmod(key, 0o644)
                before = open(target, "rb").read() if os.path.isfile(target) else None
                mode_before = pystat.S_IMODE(os.stat(target).st_mode) if os.path.isfile(target) else None
                first_key = None
                cts_seen = {}
                for ri, kind_ in enumerate(seq):
                    inp = os.path.join(d, "in%d.log" % ri)
                    open(inp, "wb").write(line1 + (line_long if kind_ == "abort" else b"") + line1)
                    outp = os.path.join(d, "out%d.log" % ri)
                    rc, so, se = run_cli(["redact", inp, "-o", outp, "--encrypt", "--encryptionKeyFile", key], cwd=d)
                    n += 1
                    tag = "%s/%s/run%d" % (sname, "+".join(seq), ri)
                    dist["%s:%s" % (sname, "exit0" if rc == 0 else "exit!=0")] += 1
                    out_bytes = open(outp, "rb").read() if os.path.exists(outp) else b""
                    now = open(target, "rb").read() if os.path.isfile(target) else None
                    rep = {"cfg": "-", "cli_flags": ["--encrypt", "--encryptionKeyFile", "<%s>" % sname], "input": "key path state %r, run sequence %r, run %d" % (sname, seq, ri)}
                    if not usable:
                        if rc == 0:
                            viol.append(dict(rep, site="key:unusable-accepted:" + sname, detail="unusable key file (%s) but the run exits 0" % sname))
                        if out_bytes.strip():
                            viol.append(dict(rep, site="key:unusable-output:" + sname, detail="unusable key file (%s) but redacted output was written: %r" % (sname, out_bytes[:80])))
                        if now != before:
                            viol.append(dict(rep, site="key:overwritten:" + sname, detail="the unusable key file was modified: %r -> %r" % ((before or b"")[:40], (now or b"")[:40])))
                        continue
                    # usable (or absent -> created)
                    if before is not None and now != before:
                        viol.append(dict(rep, site="key:overwritten:" + sname, detail="an existing valid key file was modified"))
                    if before is not None and mode_before is not None and os.path.isfile(target) and pystat.S_IMODE(os.stat(target).st_mode) != mode_before:
                        viol.append(dict(rep, site="key:mode-changed:" + sname, detail="mode of the existing key file changed"))
                    has_ct = b'"filter":{"name":"' in out_bytes and b"zqsecretvalue" not in out_bytes
                    if b"zqsecretvalue" in out_bytes or b"Who@Example.org" in out_bytes:
                        viol.append(dict(rep, site="key:plaintext:" + sname, detail="plaintext in the encrypt-mode output"))
                    if kind_ == "ok" and rc != 0:
                        viol.append(dict(rep, site="key:usable-rejected:" + sname, detail="usable key state but exit %d: %r" % (rc, se[-200:])))
                        continue
                    if kind_ == "abort" and rc == 0:
                        viol.append(dict(rep, site="key:abort-exit0", detail="a run with an over-long line exits 0"))
                    if out_bytes.strip():
                        # any ciphertext on disk must be decryptable with the key file on disk NOW (key stored before the first ciphertext)
                        if now is None:
                            viol.append(dict(rep, site="key:ciphertext-without-key:" + sname, detail="ciphertext was written but no key file exists after the run (exit %d)" % rc))
                            continue
                        try:
                            kb = base64.b64decode(now, validate=False)
                        except Exception:
                            kb = b""
                        if before is None and ri == 0 or first_key is None:
                            if before is None:
                                m = pystat.S_IMODE(os.stat(target).st_mode)
                                if m != 0o600:
                                    viol.append(dict(rep, site="key:mode:" + sname, detail="fresh key file has mode %o, expected 600" % m))
                                if len(kb) != 64 or now != base64.b64encode(kb):
                                    viol.append(dict(rep, site="key:format:" + sname, detail="fresh key file is not the base64 of 64 bytes: %r" % now[:100]))
                        first = out_bytes.split(b"\n")[0]
                        try:
                            o = parse_json(first.decode("utf-8"))
                            ct = get_path(o, ("attr", "command", "filter", "name"))
                            ct2 = get_path(o, ("attr", "command", "filter", "mail"))
                        except Exception:
                            ct = ct2 = None
                        for c_, want in ((ct, "zqsecretvalue"), (ct2, "Who@Example.org")):
                            if not isinstance(c_, str):
                                continue
                            rc2, so2, se2 = run_cli(["decrypt", c_, "--decryptionKeyFile", key], cwd=d)
                            n += 1
                            if rc2 != 0 or not so2.endswith(("Raw value: " + want + "\n").encode()):
                                viol.append(dict(rep, site="key:readback:" + sname, detail="ciphertext in the output does not decrypt with the key file on disk to %r (exit %d, %r)" % (want, rc2, so2[-60:])))
                            cts_seen.setdefault(want, set()).add(c_)
                    if first_key is None and now is not None:
                        first_key = now
                    elif first_key is not None and now != first_key:
                        viol.append(dict(rep, site="key:changed-between-runs:" + sname, detail="the key file changed after the first successful run"))
                for want, s_ in cts_seen.items():
                    if len(s_) > 1:
                        viol.append({"site": "key:nondeterministic:" + sname, "detail": "same plaintext, same key file, different ciphertexts across runs", "input": sname, "cfg": "-"})
        # fresh keys are pairwise distinct (sampled; randomness is not provable)
        keys = set()
        for i in range(8 if big else 3):
            d = tempfile.mkdtemp(dir=work)
            inp = os.path.join(d, "in.log")
            open(inp, "wb").write(line1)
            run_cli(["redact", inp, "-o", os.path.join(d, "o.log"), "--encrypt", "--encryptionKeyFile", os.path.join(d, "k")], cwd=d)
            n += 1
            if os.path.exists(os.path.join(d, "k")):
                keys.add(open(os.path.join(d, "k"), "rb").read())
        if len(keys) < (8 if big else 3):
            viol.append({"site": "key:not-fresh", "detail": "generated keys repeat", "input": "", "cfg": "-"})
    finally:
        shutil.rmtree(work, ignore_errors=True)
    return result(viol, n, len(states) * len(seqs), "whole program: every initial state of the key path (absent, valid with/without trailing LF/CRLF, empty, short, long, not base64, valid followed by junk / a space / a second key, raw bytes, directory, missing parent, path below a regular file, symlinks) x run sequences incl. a run aborted by an over-long line; key bytes and mode before/after, exit status, output file, decrypt of the emitted ciphertext with the key on disk; distinct_nontrivial = state x sequence combinations",
                  dist, [{"states": sorted(states)}])


ORACLES["C11"] = oracle_c11


# ------------------------------------------------------------------------------------------- C16 / C17 / C20 (Atlas mode, whole program)

ATLAS_LINES = [
    b'{"t":{"$date":"2024-01-01T00:00:00.000+00:00"},"s":"I","c":"COMMAND","id":51803,"ctx":"conn1","msg":"Slow query","attr":{"ns":"shop.orders","remote":"10.1.2.3:5555","command":{"find":"orders","filter":{"customer":"zqatlassecret%d","n":%d},"$db":"shop"},"durationMillis":12}}',
    b'{"t":{"$date":"2024-01-01T00:00:01.000+00:00"},"s":"I","c":"NETWORK","id":22943,"ctx":"listener","msg":"Connection accepted","attr":{"remote":"10.1.2.3:5555","connectionId":%d,"x":%d}}',
    b'not json at all %d %d',
    b'',
]


def atlas_payload(rng, host_i, nlines):
    out = []
    for j in range(nlines):
        tpl = ATLAS_LINES[rng.below(len(ATLAS_LINES))]
        out.append(tpl % (host_i * 1000 + j, j) if b"%d" in tpl else tpl)
    return b"\n".join(out) + (b"\n" if out and rng.chance(3, 4) else b"")


def run_atlas(sc, work, flags=(), dates=None, key_via="flag", pub="pubkey", priv="privkey", out_block=None, timeout=90, prefill=None, tmp_spelling=None, pre=None, reuse_dir=None):
    """run the real CLI in Atlas mode against a fake endpoint; returns dict with rc, stdout, stderr, log, tmp listing, outputs"""
    import fakeatlas, tempfile
    sc.public, sc.private = pub, priv.strip()
    fake = fakeatlas.Fake(sc)
    d = reuse_dir or tempfile.mkdtemp(prefix="atl_", dir=work)
    tmpd = os.path.join(d, "tmp")
    outd = os.path.join(d, "out")
    if not reuse_dir:
        os.mkdir(tmpd)
        os.mkdir(outd)
    out = os.path.join(outd, "mongod.redacted.log")
    if out_block is not None:
        os.mkdir(out + ".%d" % out_block)          # a directory where <out>.<i> should be created
    for i, blob in (prefill or {}).items():        # output files left by an earlier run into the same --outputFile
        open(out + ".%d" % i, "wb").write(blob)
    if pre:
        pre(outd)
    args = ["redact", "--atlasProjectId", "proj1", "--atlasClusterName", "clu1", "-o", out] + [a.replace("@OUTD@", outd) for a in flags]
    tmp_env = {None: tmpd, "slash": tmpd + "/", "dslash": os.path.dirname(tmpd) + "//" + os.path.basename(tmpd), "dot": os.path.dirname(tmpd) + "/./" + os.path.basename(tmpd),
               "dotdot": tmpd + "/../" + os.path.basename(tmpd)}[tmp_spelling]
    env = {"VERIF_ATLAS_ENDPOINT": fake.url, "TMPDIR": tmp_env, "ATLAS_PUBLIC_KEY": "", "ATLAS_PRIVATE_KEY": ""}
    if key_via == "flag":
        args += ["--atlasPublicKey", pub, "--atlasPrivateKey", priv]
    else:
        env["ATLAS_PUBLIC_KEY"], env["ATLAS_PRIVATE_KEY"] = pub, priv
    if dates:
        args += ["--atlasLogStartDate", str(dates[0]), "--atlasLogEndDate", str(dates[1])]
    t0 = int(time.time())
    try:
        rc, so, se = run_cli(args, env=env, cwd=outd, timeout=timeout)
    finally:
        fake.close()
    t1 = int(time.time())
    outs = {}
    for fn in sorted(os.listdir(outd)):
        p = os.path.join(outd, fn)
        if os.path.isfile(p):
            outs[fn] = open(p, "rb").read()
    tmp_left = {}
    for root, _, fns in os.walk(tmpd):
        for fn in fns:
            tmp_left[os.path.relpath(os.path.join(root, fn), tmpd)] = open(os.path.join(root, fn), "rb").read()
    return {"rc": rc, "stdout": so, "stderr": se, "log": list(fake.log), "tmp_left": tmp_left, "outputs": outs, "dir": d, "t0": t0, "t1": t1, "args": args, "out": out}


def expected_redaction(payload_plain, flags, work):
    """what the tool itself produces for the same bytes given as a plain file with the same redaction flags"""
    import tempfile
    d = tempfile.mkdtemp(prefix="exp_", dir=work)
    p = os.path.join(d, "in.log")
    open(p, "wb").write(payload_plain)
    o = os.path.join(d, "o.log")
    rc, so, se = run_cli(["redact", p, "-o", o] + list(flags), cwd=d)
    return rc, (open(o, "rb").read() if os.path.exists(o) else b"")


def atlas_scenarios(rng, big):
    import fakeatlas
    scs = []
    hostsets = [["h0.example.net:27017"], ["a-shard-00-00.abc.mongodb.net:27017", "a-shard-00-01.abc.mongodb.net:27017", "a-shard-00-02.abc.mongodb.net:27017"],
                ["n1.example.net", "n2.example.net:1", "n3.example.net:65535", "n4.example.net", "n5.example.net:27017"],
                ["zeta.example.net:27017", "alpha.example.net:27017", "mid.example.net:27018"], ["same.example.net:27017", "same.example.net:27018"]]
    for hs in hostsets if big else hostsets[:4]:
        plains = [atlas_payload(rng, i, [0, 1, 2, 7, 40][rng.below(5)]) for i in range(len(hs))]
        # hosts that differ in the port only are ONE host to the API (the log request names the host without its port):
        # the fake service can only hold one log for them
        first = {}
        for i, h in enumerate(hs):
            plains[i] = plains[first.setdefault(h.split(":")[0], i)]
        scs.append((hs, plains))
    return scs


def oracle_c16(tables, seed, tier, deep):
    import gzip
    import fakeatlas, tempfile, shutil, urllib.parse
    big = tier == "thorough" or deep
    rng = SplitMix(seed ^ 0xC16)
    work = tempfile.mkdtemp(prefix="verif_c16_")
    viol, dist = [], collections.Counter()
    n = 0
    try:
        flagsets = [[], ["--redactNumbers", "--redactIPs"], ["--redactNamespaces", "--replacement", "X"]] if big else [[], ["--redactNumbers", "--redactIPs", "--redactNamespaces"]]
        for hs, plains in atlas_scenarios(rng, big):
            for fi, flags in enumerate(flagsets):
                future = (int(time.time()) - 3600, int(time.time()) + 86400)     # a window that runs past the present
                for dates in ([None, (1700000000, 1700003600), future, (1, 2)] if (big or fi == 0) else [None, future]):
                    payloads = [fakeatlas.gz(p, members=(1 if i % 2 == 0 else 3)) for i, p in enumerate(plains)]
                    sc = fakeatlas.Scenario(hs, payloads)
                    r = run_atlas(sc, work, flags=flags, dates=dates, key_via=("env" if fi % 2 else "flag"))
                    n += 1
                    rep = {"cfg": " ".join(flags), "cli_flags": r["args"][1:], "input": "hosts=%r dates=%r" % (hs, dates)}
                    dist["hosts=%d" % len(hs)] += 1
                    if r["rc"] != 0:
                        viol.append(dict(rep, site="atlas:failed", detail="fault-free Atlas job exited %d: %s" % (r["rc"], r["stderr"][-300:])))
                        continue
                    authed = [e for e in r["log"] if e["authed"]]
                    unauth = [e for e in r["log"] if not e["authed"]]
                    names = [h.split(":")[0] for h in hs]
                    want_paths = ["/api/atlas/v2/groups/proj1/clusters/clu1"] + ["/api/atlas/v2/groups/proj1/clusters/%s/logs/mongodb.gz" % h for h in names]
                    got_paths = [e["path"] for e in authed]
                    if got_paths != want_paths:
                        viol.append(dict(rep, site="atlas:requests", detail="authenticated requests %r, expected %r" % (got_paths, want_paths)))
                    # at most one unauthenticated twin per authenticated request, same path
                    for pth in set(e["path"] for e in unauth):
                        if sum(1 for e in unauth if e["path"] == pth) > sum(1 for e in authed if e["path"] == pth):
                            viol.append(dict(rep, site="atlas:extra-unauthenticated", detail="more unauthenticated than authenticated requests for %s" % pth))
                    if any(not e.get("digest_valid") for e in authed):
                        viol.append(dict(rep, site="atlas:bad-digest", detail="an authenticated request does not carry a valid digest response"))
                    for e in authed[1:]:
                        q = dict(urllib.parse.parse_qsl(e["query"]))
                        try:
                            s_, e_ = int(q.get("startDate", "x")), int(q.get("endDate", "x"))
                        except ValueError:
                            viol.append(dict(rep, site="atlas:window", detail="query %r" % e["query"]))
                            continue
                        if set(q) != {"startDate", "endDate"}:
                            viol.append(dict(rep, site="atlas:query-params", detail="query parameters %r" % sorted(q)))
                        if dates:
                            if (s_, e_) != dates:
                                viol.append(dict(rep, site="atlas:window", detail="requested window %r, sent %r" % (dates, (s_, e_))))
                        else:
                            if not (r["t0"] - 2 <= e_ <= r["t1"] + 2 and e_ - s_ == 7 * 24 * 3600 and s_ < e_):
                                viol.append(dict(rep, site="atlas:default-window", detail="default window sent as start=%d end=%d (now in [%d,%d])" % (s_, e_, r["t0"], r["t1"])))
                    # outputs: <out>.<i> = redaction of host i's log under the same flags
                    base = os.path.basename(r["out"])
                    for i, plain in enumerate(plains):
                        rc2, exp = expected_redaction(plain, flags, work)
                        got = r["outputs"].get("%s.%d" % (base, i))
                        n += 1
                        if got is None:
                            viol.append(dict(rep, site="atlas:output-missing", detail="no %s.%d" % (base, i)))
                        elif got != exp:
                            viol.append(dict(rep, site="atlas:output-differs", detail="%s.%d differs from the redaction of host %d's log (%d vs %d bytes)" % (base, i, i, len(got), len(exp))))
                    extra = [fn for fn in r["outputs"] if fn != base and not any(fn == "%s.%d" % (base, i) for i in range(len(plains)))]
                    if extra:
                        viol.append(dict(rep, site="atlas:extra-output", detail="unexpected output files %r" % extra))
                    if r["tmp_left"]:
                        viol.append(dict(rep, site="atlas:tmp-left", detail="temporary files left: %r" % sorted(r["tmp_left"])))
        # hosts that answer at different speeds (the first the slowest): requests still one at a time in host order, and
        # <out>.<i> still host i's log
        hs = ["slow.example.net:27017", "mid.example.net:27017", "fast.example.net:27017"]
        plains = [atlas_payload(rng, i, 2 + i) for i in range(3)]
        sc = fakeatlas.Scenario(hs, [fakeatlas.gz(p) for p in plains], delays={0: 0.7, 1: 0.3})
        r = run_atlas(sc, work)
        n += 1
        rep = {"cfg": "-", "cli_flags": r["args"][1:], "input": "3 hosts answering after 0.7 s / 0.3 s / at once"}
        dist["hosts-with-delays"] += 1
        base = os.path.basename(r["out"])
        authed = [e for e in r["log"] if e["authed"]]
        want_paths = ["/api/atlas/v2/groups/proj1/clusters/clu1"] + ["/api/atlas/v2/groups/proj1/clusters/%s/logs/mongodb.gz" % h.split(":")[0] for h in hs]
        if r["rc"] != 0:
            viol.append(dict(rep, site="atlas:failed", detail="fault-free Atlas job exited %d: %s" % (r["rc"], r["stderr"][-300:])))
        else:
            if [e["path"] for e in authed] != want_paths:
                viol.append(dict(rep, site="atlas:requests", detail="authenticated requests arrived as %r, expected %r" % ([e["path"] for e in authed], want_paths)))
            for i, plain in enumerate(plains):
                rc2, exp = expected_redaction(plain, [], work)
                got = r["outputs"].get("%s.%d" % (base, i))
                n += 1
                if got != exp:
                    viol.append(dict(rep, site="atlas:output-differs", detail="%s.%d is not the redaction of host %d's log (%s vs %d bytes)" % (base, i, i, "missing" if got is None else len(got), len(exp))))
        # a second run into the same --outputFile: longer files of an earlier run are lying there
        hs = ["h0.example.net:27017", "h1.example.net:27017"]
        plains = [atlas_payload(rng, i, 2 + i) for i in range(2)]
        sc = fakeatlas.Scenario(hs, [fakeatlas.gz(p) for p in plains])
        stale = b"".join(b'{"stale":"line %d of an earlier, longer run"}\n' % j for j in range(400))
        r = run_atlas(sc, work, prefill={0: stale, 1: stale[:37]})
        n += 1
        rep = {"cfg": "-", "cli_flags": r["args"][1:], "input": "2 hosts; <out>.0 and <out>.1 exist already (left by an earlier run, %d and 37 bytes)" % len(stale)}
        base = os.path.basename(r["out"])
        for i, plain in enumerate(plains):
            rc2, exp = expected_redaction(plain, [], work)
            got = r["outputs"].get("%s.%d" % (base, i))
            if r["rc"] != 0 or got != exp:
                viol.append(dict(rep, site="atlas:output-differs:existing-output-file", detail="exit %d; %s.%d is %s bytes, the redaction of host %d's log is %d bytes%s" % (
                    r["rc"], base, i, "no" if got is None else len(got), i, len(exp), "; it ends with the earlier run's content" if got and got.endswith(stale[-40:]) else "")))
        # a failing host: the run must fail, and whatever <out>.<i> exists must still be host i's redaction (no shifting)
        hostfaults = [(k, ("http", 500)) for k in ([0, 1, 2] if big else [1])] + [(1, ("cut", -2)), (0, ("cut", -1)), (2, ("cut", 0)), (1, ("cut", -9)),
                      (1, ("once", "member")), (2, ("once", "half")), (0, ("once", "member"))]
        for k, flt in hostfaults:
            hs = ["h0.example.net:27017", "h1.example.net:27017", "h2.example.net:27017"]
            plains = [atlas_payload(rng, i, 3 + i) for i in range(3)]
            gzs = [fakeatlas.gz(p) for p in plains]
            if flt[0] == "cut":
                flt = ("cut", {-2: len(gzs[k]) // 2, -1: len(gzs[k]) - 1, 0: 0, -9: len(gzs[k]) - 9}[flt[1]])
            if flt[0] == "once":
                # the transfer of this host's log breaks off ONCE (exactly behind a gzip member / in the middle); every later request
                # is served in full, whatever it asks for.  One download per host: the job may fail, it may not fetch the log again,
                # and no <out>.<i> may hold anything but the redaction of what the server holds for host i.
                half = plains[k][: plains[k].index(b"\n", len(plains[k]) // 2) + 1]
                m1 = gzip.compress(half)
                gzs[k] = m1 + gzip.compress(plains[k][len(half):])
                flt = ("seq", [("cut", len(m1) if flt[1] == "member" else len(gzs[k]) // 2)])
            sc = fakeatlas.Scenario(hs, gzs, faults={k: flt})
            r = run_atlas(sc, work)
            n += 1
            rep = {"cfg": "-", "cli_flags": r["args"][1:], "input": "3 hosts, host %d: %r" % (k, flt)}
            if r["rc"] == 0:
                viol.append(dict(rep, site="atlas:failed-host-exit0", detail="the download of host %d failed (%r) but the run exits 0" % (k, flt)))
            per_host = collections.Counter(e.get("host_index") for e in r["log"] if e["authed"] and e["path"].endswith("/logs/mongodb.gz"))
            if any(v > 1 for v in per_host.values()):
                viol.append(dict(rep, site="atlas:download-repeated", detail="authenticated log downloads per host: %r (exactly one per host is allowed)" % dict(per_host)))
            base = os.path.basename(r["out"])
            for i, plain in enumerate(plains):
                got = r["outputs"].get("%s.%d" % (base, i))
                if got is not None:
                    rc2, exp = expected_redaction(plain, [], work)
                    if got != exp:
                        viol.append(dict(rep, site="atlas:output-shifted", detail="%s.%d exists after a failed download of host %d and is not the redaction of host %d's log" % (base, i, k, i)))
        # HISTORY across jobs: a job for an explicit window fails at its second host; then the SAME job (same window, same TMPDIR,
        # same output path) is run again and everything succeeds - with different log contents on the servers.  The second job
        # must download every host again (one request each) and <out>.<i> must be the redaction of what was served NOW.
        hs = ["h0.example.net:27017", "h1.example.net:27017", "h2.example.net:27017"]
        old = [atlas_payload(rng, i, 3) for i in range(3)]
        new = [atlas_payload(rng, i + 10, 4 + i) for i in range(3)]
        win = (1700000000, 1700003600)
        r1 = run_atlas(fakeatlas.Scenario(hs, [fakeatlas.gz(p) for p in old], faults={1: ("http", 500)}), work, dates=win)
        r2 = run_atlas(fakeatlas.Scenario(hs, [fakeatlas.gz(p) for p in new]), work, dates=win, reuse_dir=r1["dir"])
        n += 2
        rep = {"cfg": "-", "cli_flags": r2["args"][1:], "input": "3 hosts, explicit window; job 1 fails at host 1 (HTTP 500); job 2 = the same job again, all hosts fine, other log contents"}
        dl = [e for e in r2["log"] if e["authed"] and e["path"].endswith("/logs/mongodb.gz")]
        if r2["rc"] != 0:
            viol.append(dict(rep, site="atlas:history:second-job-failed", detail="exit %d: %s" % (r2["rc"], r2["stderr"][-200:].decode("utf-8", "replace"))))
        elif [e.get("host_index") for e in dl] != [0, 1, 2]:
            viol.append(dict(rep, site="atlas:history:downloads-skipped", detail="the second job sent the log downloads %r (expected one per host, in order)" % [e.get("host_index") for e in dl]))
        else:
            base = os.path.basename(r2["out"])
            for i, plain in enumerate(new):
                rc2, exp = expected_redaction(plain, [], work)
                if r2["outputs"].get("%s.%d" % (base, i)) != exp:
                    viol.append(dict(rep, site="atlas:history:stale-output", detail="%s.%d of the second job is not the redaction of what host %d served to that job" % (base, i, i)))
        if r1["tmp_left"] or r2["tmp_left"]:
            viol.append(dict(rep, site="atlas:tmp-left", detail="temporary files left after the two jobs: %r" % sorted(set(r1["tmp_left"]) | set(r2["tmp_left"]))))
    finally:
        shutil.rmtree(work, ignore_errors=True)
    return result(viol, n, n, "whole program against an in-process fake Atlas endpoint (digest challenge): clusters with 1..5 hosts with / without ports, payloads empty / small / multi-member gzip, flag sets, given and default window, key pair by flag or environment; request log (order, paths, query, valid digest, unauthenticated twins), every <out>.<i> byte-compared with the tool's own redaction of the same bytes given as a file",
                  dist, [{"hosts": 3}])


ATLAS_FAULTS = ["enc-badkey", "enc-shortkey", "enc-key-unwritable", "enc-key-is-dir", "cluster-http500", "cluster-reset", "cluster-http401", "host-http500", "host-http403", "host-http404", "host-reset", "host-cut0", "host-cut", "host-cut-then-401", "host-cut-then-reset", "host-cut-cut-500", "host-empty200", "not-gzip", "long-line", "out-blocked", "srv", "none"]


def oracle_c17(tables, seed, tier, deep):
    import fakeatlas, tempfile, shutil
    big = tier == "thorough" or deep
    rng = SplitMix(seed ^ 0xC17)
    work = tempfile.mkdtemp(prefix="verif_c17_")
    viol, dist = [], collections.Counter()
    n = 0
    try:
        for nh in ([1, 2, 3, 4] if big else [1, 3]):
            hs = ["h%d.example.net:27017" % i for i in range(nh)]
            for fault in ATLAS_FAULTS:
                ks = range(nh) if (fault.startswith("host-") or fault in ("not-gzip", "long-line", "out-blocked")) else [0]
                if fault == "host-empty200" and nh >= 3 and not big:
                    ks = [0, 1]
                for k in ks:
                    plains = [atlas_payload(rng, i, 5) for i in range(nh)]
                    payloads = [fakeatlas.gz(p) for p in plains]
                    faults, cf, out_block, srv = {}, None, None, False
                    if fault == "cluster-http500":
                        cf = ("http", 500)
                    elif fault == "cluster-reset":
                        cf = ("reset",)
                    elif fault == "cluster-http401":
                        cf = ("http", 401)
                    elif fault.startswith("host-http"):
                        faults[k] = ("http", int(fault[9:]))
                    elif fault == "host-reset":
                        faults[k] = ("reset",)
                    elif fault == "host-cut0":
                        faults[k] = ("cut", 0)
                    elif fault == "host-cut":
                        faults[k] = ("cut", max(1, len(payloads[k]) // 2))
                    elif fault == "host-cut-then-401":
                        faults[k] = ("seq", [("cut", max(1, len(payloads[k]) // 2)), ("http", 401), ("http", 401), ("http", 401)])
                    elif fault == "host-cut-then-reset":
                        faults[k] = ("seq", [("cut", max(1, len(payloads[k]) // 3)), ("reset",), ("reset",), ("reset",)])
                    elif fault == "host-cut-cut-500":
                        faults[k] = ("seq", [("cut", 1), ("cut", 2), ("http", 500), ("http", 500)])
                    elif fault == "host-empty200":
                        payloads[k] = b""          # HTTP 200 with a complete, empty body
                    elif fault == "not-gzip":
                        payloads[k] = b"this is not gzip data\n" * 10
                    elif fault == "long-line":
                        payloads[k] = fakeatlas.gz(plains[k] + b'{"x":"' + b"y" * 70000 + b'"}\n')
                    elif fault == "out-blocked":
                        out_block = k
                    elif fault == "srv":
                        srv = True
                    flags, pre = [], None
                    if fault.startswith("enc-"):
                        flags = ["--encrypt", "--encryptionKeyFile", "@OUTD@/k/the.key"]
                        if fault == "enc-badkey":
                            pre = lambda od: (os.mkdir(od + "/k"), open(od + "/k/the.key", "w").write("this is not base64 !!!"))
                        elif fault == "enc-shortkey":
                            pre = lambda od: (os.mkdir(od + "/k"), open(od + "/k/the.key", "w").write(base64.b64encode(b"0123456789abcdef").decode()))
                        elif fault == "enc-key-is-dir":
                            pre = lambda od: os.makedirs(od + "/k/the.key")
                    # the temporary directory may be spelled non-canonically in the environment
                    spelling = [None, "slash", "dslash", "dot", "dotdot"][(n + k) % 5] if fault in ("none", "host-http500", "host-cut", "not-gzip", "out-blocked") else None
                    sc = fakeatlas.Scenario(hs, payloads, faults=faults, cluster_fault=cf, srv=srv)
                    r = run_atlas(sc, work, out_block=out_block, flags=flags, pre=pre, tmp_spelling=spelling)
                    n += 1
                    dist[fault] += 1
                    if spelling:
                        dist["TMPDIR:" + spelling] += 1
                    rep = {"cfg": "-", "cli_flags": r["args"][1:], "input": "hosts=%d fault=%s at %d TMPDIR spelling=%s" % (nh, fault, k, spelling)}
                    if r["tmp_left"]:
                        viol.append(dict(rep, site="tmp-left:" + fault, detail="after fault %s at host/file %d of %d (exit %d) the temporary directory still holds %r" % (fault, k, nh, r["rc"], sorted(r["tmp_left"]))))
                    if fault != "none" and r["rc"] == 0:
                        viol.append(dict(rep, site="fault-exit0:" + fault, detail="fault %s at %d but exit status 0" % (fault, k)))
                    if fault == "none" and r["rc"] != 0:
                        viol.append(dict(rep, site="atlas:failed", detail="fault-free job exited %d: %s" % (r["rc"], r["stderr"][-200:])))
                    if b"panic" in r["stderr"] or b"goroutine " in r["stderr"]:
                        viol.append(dict(rep, site="panic:" + fault, detail=r["stderr"][-300:].decode("utf-8", "replace")))
    finally:
        shutil.rmtree(work, ignore_errors=True)
    return result(viol, n, n, "whole program against the fake endpoint, private TMPDIR listed after every run: cluster lookup failing (status / reset / 401), the k-th host failing (500 / 403 / 404 / reset / body cut at 0 and mid-way), a payload that is not gzip, a payload with an over-long line, <out>.<k> not creatable, --encrypt with an unusable / unwritable key file, SRV connection string, and success; TMPDIR spelled canonically, with a trailing slash, a doubled slash, '/./' and '/../'; for 1..4 hosts and every k",
                  dist, [{"faults": ATLAS_FAULTS}])


def key_encodings(priv):
    import urllib.parse
    raw = priv.encode("utf-8")
    encs = {"verbatim": raw, "trimmed": raw.strip(), "urlencoded": urllib.parse.quote(priv, safe="").encode(), "urlencoded+": urllib.parse.quote_plus(priv).encode(),
            "base64": base64.b64encode(raw), "base64url": base64.urlsafe_b64encode(raw), "hex": binascii.hexlify(raw), "HEX": binascii.hexlify(raw).upper()}
    out = {k: v for k, v in encs.items() if len(v) >= 6}
    if len(raw.strip()) < 6 and len(raw.strip()) >= 3 and not raw.strip().isalnum():
        # a very short key with punctuation in it is still unmistakable in TEXT (stdout, stderr, request lines): searched there only
        out["verbatim-short(text artefacts only)"] = raw.strip()
    return out


def oracle_c20(tables, seed, tier, deep):
    import fakeatlas, tempfile, shutil
    big = tier == "thorough" or deep
    rng = SplitMix(seed ^ 0xC20)
    work = tempfile.mkdtemp(prefix="verif_c20_")
    viol, dist = [], collections.Counter()
    n = 0
    keys = ["zqPRIVATEkey-0123456789", "pri v/key+with=odd&chars%zq", "zqtrailingspacekey ", "zqnewlinekey123\n"] if big else ["zqPRIVATEkey-0123456789", "pri v/key+with=odd&chars%zq", "zqnewlinekey123\n"]
    keys += ["zQ7~", "Z~"]          # very short keys (a "masked" key that keeps the last characters shows them whole)
    scen = [("digest", {}, None, False), ("none", {}, None, False), ("basic", {}, None, False), ("reject", {}, None, False), ("digest", {}, None, True),
            ("digest", {1: ("http", 500)}, None, True), ("digest", {0: ("http", 403)}, None, True), ("digest", {1: ("cut", 30)}, None, False), ("digest", {}, ("http", 500), True),
            ("digest", {0: ("reset",)}, None, False), ("basic", {}, None, True), ("digest-cluster-only", {}, None, False),
            # "not found" / "try later" answers for a host's log or for the cluster (a fallback or retry path may build its request differently)
            ("digest", {0: ("http", 404)}, None, True), ("digest", {1: ("http", 404)}, None, False), ("none", {0: ("http", 404)}, None, True),
            ("digest", {0: ("http", 401)}, None, True), ("digest", {}, ("http", 404), True), ("digest", {1: ("http", 429)}, None, True), ("digest", {0: ("http", 410)}, None, False)]
    try:
        for ki, priv in enumerate(keys):
            for si, (auth, faults, cf, echo) in enumerate(scen):
                if not big and ki > 0 and si not in ((3, 6, 8) if len(priv) <= 4 else (0, 2, 4, 11)):
                    continue
                hs = ["h0.example.net:27017", "h1.example.net:27017"]
                payloads = [fakeatlas.gz(atlas_payload(rng, i, 4)) for i in range(2)]
                sc = fakeatlas.Scenario(hs, payloads, auth=auth, faults=faults, cluster_fault=cf, echo=echo)
                via = "env" if (ki + si) % 2 else "flag"
                r = run_atlas(sc, work, key_via=via, pub="zqpublickey", priv=priv)
                n += 1
                dist[auth + ("+echo" if echo else "") + ("+fault" if faults or cf else "")] += 1
                rep = {"cfg": "-", "cli_flags": [a if a != priv else "<PRIVATE KEY>" for a in r["args"][1:]], "input": "auth=%s faults=%r cluster_fault=%r echo=%r key#%d via %s" % (auth, faults, cf, echo, ki, via)}
                encs = key_encodings(priv)
                pair = ("zqpublickey:" + priv.strip()).encode()
                encs["basic-pair"] = base64.b64encode(pair)
                encs["basic-pair-raw"] = base64.b64encode(("zqpublickey:" + priv).encode())
                arte = {"stdout": r["stdout"], "stderr": r["stderr"]}
                for fn, b in r["outputs"].items():
                    arte["output:" + fn] = b
                for fn, b in r["tmp_left"].items():
                    arte["tmp:" + fn] = b
                for i, e in enumerate(r["log"]):
                    arte["request#%d" % i] = ("%s %s?%s\n" % (e["method"], e["path"], e["query"]) + "\n".join("%s: %s" % kv for kv in e["headers"].items())).encode("utf-8", "replace")
                for where, blob in arte.items():
                    for ename, eb in encs.items():
                        if ename.startswith("verbatim-short") and not (where.startswith("stdout") or where.startswith("stderr") or where.startswith("request#")):
                            continue
                        if eb and eb in blob:
                            viol.append(dict(rep, site="key-leak:%s:%s" % (where.split("#")[0].split(":")[0], ename), detail="the private key (%s) occurs in %s" % (ename, where)))
                # no challenge -> no credential material at all
                if auth == "none":
                    if any(e["authed"] for e in r["log"]):
                        viol.append(dict(rep, site="key-leak:unsolicited-authorization", detail="an Authorization header was sent although the server never sent a challenge"))
                if auth == "digest-cluster-only" and any(e["authed"] for e in r["log"] if e["path"].endswith("/logs/mongodb.gz")):
                    viol.append(dict(rep, site="key-leak:unsolicited-authorization:later-request", detail="a log download carried an Authorization header although that endpoint never sent a challenge (a challenge answered earlier was re-used)"))
                if auth == "basic" and any(e["authed"] for e in r["log"]):
                    viol.append(dict(rep, site="key-leak:basic", detail="credentials were sent in answer to a Basic challenge"))
        # invocations that end in usage / help / an argument error, with the key pair in the environment or on the command line
        atlas_args = ["--atlasProjectId", "proj1", "--atlasClusterName", "clu1", "-o", "out.log"]
        usage_cases = [["redact", "--help"], ["redact", "-h"], ["help", "redact"], ["--help"], ["redact"] + atlas_args + ["--atlasLogStartDate", "yesterday", "--atlasLogEndDate", "today"],
                       ["redact"] + atlas_args + ["--nosuchflag"], ["redact", "a.log", "b.log"] + atlas_args, ["redact"] + atlas_args + ["--atlasLogStartDate", "1700000000"],
                       ["redact"] + atlas_args[:2], ["redact", "--redactNumbers=maybe"] + atlas_args, ["nosuchcommand"], ["redact"] + atlas_args + ["--replacement"], ["version"], ["completion", "bash"]]
        for ki, priv in enumerate(keys[:2] if not big else keys):
            for ui, ua in enumerate(usage_cases):
                for via in ("env", "flag"):
                    d = tempfile.mkdtemp(prefix="use_", dir=work)
                    env = {"VERIF_ATLAS_ENDPOINT": "http://127.0.0.1:9", "TMPDIR": d, "ATLAS_PUBLIC_KEY": "", "ATLAS_PRIVATE_KEY": ""}
                    args = list(ua)
                    if via == "env":
                        env["ATLAS_PUBLIC_KEY"], env["ATLAS_PRIVATE_KEY"] = "zqpublickey", priv
                    elif args[0] == "redact" and "--replacement" not in args[-1:]:
                        args += ["--atlasPublicKey", "zqpublickey", "--atlasPrivateKey", priv]
                    else:
                        continue
                    rc, so, se = run_cli(args, env=env, cwd=d, timeout=30)
                    n += 1
                    dist["usage/help/argument-error"] += 1
                    for where, blob in (("stdout", so), ("stderr", se)):
                        for ename, eb in key_encodings(priv).items():
                            if eb and eb in blob:
                                viol.append({"site": "key-leak:%s:%s:usage" % (where, ename), "cfg": "-", "cli_flags": [a if a != priv else "<PRIVATE KEY>" for a in args], "input": "key via %s; %r" % (via, ua),
                                             "detail": "the private key (%s) is printed on %s by an invocation that ends in usage / help / an argument error (exit %d)" % (ename, where, rc)})
    finally:
        shutil.rmtree(work, ignore_errors=True)
    return result(viol, n, n, "whole program against the fake endpoint: digest challenge / no challenge / Basic challenge / 401 after authentication, bodies that echo the request, HTTP errors, cut bodies, connection resets; private keys with URL- and shell-special characters and trailing white space, given by flag or environment; every captured artefact (each request line + headers, stdout, stderr, output files, temporary files) searched for the key verbatim, trimmed, URL-encoded, base64 / base64url, hex, and as a Basic user:password pair; plus invocations that end in usage / help / an argument error (bad date, unknown flag, two positional arguments, missing value, --help) with the key in the environment or on the command line, stdout and stderr searched",
                  dist, [{"scenarios": len(scen), "keys": len(keys)}])


ORACLES["C16"] = oracle_c16
ORACLES["C17"] = oracle_c17
ORACLES["C20"] = oracle_c20


# ------------------------------------------------------------------------------------------- CLI flag wiring (shared)

def cli_wiring(seed, n_cases, want_enc=None, force_mode=None):
    """the real CLI with real flags on a file of generated lines vs. the in-process redactor configured through the setters with the
    same values: byte comparison of the outputs.  Catches a flag that does not reach its setter under some flag combination."""
    import tempfile, shutil
    rng = SplitMix(seed ^ 0xC11F)
    viol = []
    n = 0
    work = tempfile.mkdtemp(prefix="verif_wire_")
    try:
        cases = grammar_cases(seed ^ 0x77, n_cases)
        lines = [cs.text.encode("utf-8") for cs in cases]
        nss = [get_path(cs.tree, ("attr", "ns")) for cs in cases]
        nss = [x for x in nss if isinstance(x, str)]
        combos = []
        for i in range(10 if want_enc is None else 6):
            c = Cfg(repl=rng.choice(["REDACTED", "zz", "X y", "REDACTED", "r_1"]), n=rng.chance(1, 2), b=rng.chance(1, 2), i=rng.chance(1, 2), w=rng.chance(1, 2))
            mode = rng.below(3) if force_mode is None else force_mode
            if mode == 1 and nss:
                c.eager = (rng.choice(nss).split(".")[0],)
            elif mode == 2:
                # (values with a comma / a pipe / braces: the flag value must reach the compiler as ONE expression)
                c.re = rng.choice(["^(zq3xf|zq4xf|name)$", "^(zq[0-9]{1,2}xf|name)$", "zq[34]xf,?", "^zq3xf$|^zq4xf$"])
            if mode == 1 and len(nss) > 1 and rng.chance(1, 2):
                db = c.eager[0]
                c.eager = (db + ".zzz", db, db + ".aaa")          # the flag given several times, nested prefixes
            enc = (i % 2 == 1) if want_enc is None else want_enc
            combos.append((c, enc))
        inp = os.path.join(work, "in.log")
        open(inp, "wb").write(b"\n".join(lines) + b"\n")
        key = os.path.join(work, "harness.key")
        open(key, "wb").write(base64.b64encode(HARNESS_KEY))
        for ci, (c, enc) in enumerate(combos):
            outp = os.path.join(work, "out%d.log" % ci)
            args = ["redact", inp, "-o", outp] + c.cli() + (["--encrypt", "--encryptionKeyFile", key] if enc else [])
            # ambient state that must not matter: a key file left by an earlier --encrypt run at the default path of the
            # working directory, or a key file named on the command line, WITHOUT --encrypt
            ambient = os.path.join(work, "anonymongo.enc.key")
            if os.path.exists(ambient):
                os.remove(ambient)
            if not enc and ci % 3 == 1:
                open(ambient, "wb").write(base64.b64encode(HARNESS_KEY))
            if not enc and ci % 3 == 2:
                args += ["--encryptionKeyFile", key]
            rc, so, se = run_cli(args, cwd=work)
            n += 1
            c2 = Cfg(c.repl, c.n, c.b, c.i, c.w, c.eager, c.re, 3 if enc else 0)
            exp = b"".join(expected_stream(lines, c2))
            got = open(outp, "rb").read() if os.path.exists(outp) else b""
            if rc != 0 or got != exp:
                k = next((j for j in range(min(len(got), len(exp))) if got[j] != exp[j]), min(len(got), len(exp)))
                viol.append({"site": "cli-wiring:" + "+".join(a for a in args[4:] if a.startswith("-")), "detail": "exit %d; CLI output differs from the in-process result with the same settings at byte %d: %r vs %r" % (rc, k, got[max(0, k - 50):k + 50], exp[max(0, k - 50):k + 50]),
                             "cfg": c2.s(), "cli_flags": args[1:], "input": lines[0].decode("utf-8")[:300]})
    finally:
        shutil.rmtree(work, ignore_errors=True)
    return viol, n


def with_wiring(fn, want_enc=None, force_mode=None):
    def wrapped(tables, seed, tier, deep):
        r = fn(tables, seed, tier, deep)
        v, n = cli_wiring(seed, 40 if (tier == "thorough" or deep) else 12, want_enc, force_mode)
        if v:
            r["violations"] = result(r["violations"] + v, 0, 0, "", {}, [])["violations"]
            r["stats"]["summary"]["violating_sites"] = len(r["violations"])
        r["stats"]["evaluations"] += n
        r["stats"]["summary"]["evaluations"] = r["stats"]["evaluations"]
        r["stats"]["rule"] += "; plus the real CLI with random flag combinations (replacement, numbers, booleans, IPs, namespaces, field names / regexp, encrypt) byte-compared with the in-process redactor configured with the same values"
        return r
    return wrapped


ORACLES["C01"] = with_wiring(oracle_c01)
ORACLES["C05"] = with_wiring(oracle_c05, want_enc=False)
ORACLES["C10"] = with_wiring(oracle_c10, want_enc=True)


# ------------------------------------------------------------------------------------------- C01: witnesses synthesised from every table entry

WL_AGG_KEEP = {
    ("$binary", "subType"), ("$limit",), ("$skip",), ("$sample",), ("$densify", "range", "step"), ("$densify", "range", "units"), ("$lookup", "as"), ("$merge", "whenNotMatched"),
    ("$out", "timeseries"), ("$planCacheStats",), ("$querySettings",), ("$queryStats",), ("$shardedDataDistribution",),
    ("$bucket", "groupBy"), ("$count",), ("$densify", "field"), ("$fill", "partitionByFields"), ("$fill", "sortBy"), ("$geoNear", "distanceField"),
    ("$graphLookup", "connectFromField"), ("$graphLookup", "connectToField"), ("$graphLookup", "depthField"), ("$replaceRoot", "newRoot"), ("$setWindowFields", "sortBy"),
    ("$sortByCount",), ("$unset",), ("$unwind",),
    ("$graphLookup", "from"), ("$lookup", "from"), ("$merge", "into"), ("$out", "db"), ("$out", "coll"), ("$unionWith", "coll"),
    ("$facet",), ("$lookup", "pipeline"), ("$merge", "whenMatched"), ("$unionWith", "pipeline"),
}
WL_SEARCH_NAMES = {"score", "fuzzy", "tokenOrder", "minimumShouldMatch", "relation", "type", "slop", "allowAnalyzedField", "spanToReturn", "inOrder", "matchCriteria", "numBuckets",
                   "index", "maxCharsToExamine", "maxNumPassages", "concurrent", "threshold", "scoreDetails", "returnStoredSource", "exact", "limit", "numCandidates",
                   "path", "defaultPath", "sort", "combination"}


def spec_may_keep(tname, path):
    """independent copy of Spec/Whitelist.lean: may a value below this table path be kept verbatim?"""
    if tname in ("agg", "core"):
        return any(tuple(path[:k]) in WL_AGG_KEEP for k in range(1, len(path) + 1))
    return any(p in WL_SEARCH_NAMES for p in path) or tuple(path) == ("$rankFusion", "input", "pipelines")


def table_witness_cases(tables):
    """for every entry of every regenerated table that the spec does NOT allow to keep values: lines that plant a literal there"""
    out = []
    srcs = [("agg", tables["AggregationOperators"]), ("sagg", tables["SearchAggregationOperators"]), ("core", tables["CoreOperators"]), ("search", tables["SearchOperators"])]
    n = 0
    for tname, tb in srcs:
        for path, leaf in table_paths(tb):
            if spec_may_keep(tname, path):
                continue
            for shape in range(4):
                n += 1
                tok = "zq%dxs" % (900000 + n)
                val = [tok, [tok], Obj([("k", tok)]), [Obj([("k", tok)]), "zqpad"]][shape]
                for kind_, tree in wrap_positions(tname, path, val):
                    if kind_ == "stage":
                        cmd = Obj([("aggregate", "c"), ("pipeline", [tree]), ("$db", "d")])
                    else:
                        cmd = Obj([("find", "c"), ("filter", tree), ("$db", "d")])
                    line = Obj([("c", "COMMAND"), ("msg", "Slow query"), ("attr", Obj([("ns", "d.c"), ("command", cmd)]))])
                    out.append((tok, tname, path, line))
    return out


def oracle_c01_tables(tables, seed, tier, deep):
    cases = table_witness_cases(tables)
    cfgs = [Cfg(), Cfg(n=True, b=True, w=True)]
    viol = []
    for c in cfgs:
        res = go_exec([(str(i), ["line", c.s(), hx(to_json(line))]) for i, (tok, tname, path, line) in enumerate(cases)])
        for i, (tok, tname, path, line) in enumerate(cases):
            t = out_text(res.get(str(i), ""))
            if t is None or tok in t:
                viol.append({"site": "leak:table:%s:%s" % (tname, "/".join(path)), "detail": "literal %r planted below table entry %s:%s (not an operational parameter per Spec/Whitelist) %s" % (tok, tname, "/".join(path), "survives" if t else "no output line"),
                             "token": tok, "cfg": c.s(), "cli_flags": c.cli(), "input": to_json(line), "output": t})
    return viol, len(cases) * len(cfgs)


def with_tables(fn):
    def wrapped(tables, seed, tier, deep):
        r = fn(tables, seed, tier, deep)
        v, n = oracle_c01_tables(tables, seed, tier, deep)
        if v:
            r["violations"] = result(r["violations"] + v, 0, 0, "", {}, [])["violations"]
            r["stats"]["summary"]["violating_sites"] = len(r["violations"])
        r["stats"]["evaluations"] += n
        r["stats"]["summary"]["evaluations"] = r["stats"]["evaluations"]
        r["stats"]["rule"] += "; plus a literal planted (as string, [string], {k: string}, [{k: string}]) below EVERY entry of the regenerated tables that the whitelist does not allow to keep values, at every wrapping position"
        return r
    return wrapped


ORACLES["C01"] = with_tables(ORACLES["C01"])


# ------------------------------------------------------------------------------------------- history (sessions)
# The redactor is specified line by line: what a line yields may depend on the line and on the flags,
# never on the lines processed before it.  The session families of corr.session_ops are run (a) as
# sessions - one harness process, setters called once - and (b) line by line, every (flags, line) pair in
# a fresh process.  Any difference is a concrete history on which the output of a line depends on
# earlier lines; what property that breaks depends on the flags of the session.

_HIST = {}


def history_records(tables, seed, tier, deep):
    key = (seed, tier == "thorough" or deep)
    if key in _HIST:
        return _HIST[key]
    import corr
    from concurrent.futures import ThreadPoolExecutor
    groups = corr.session_ops(tables, seed, 400 if key[1] else 24)
    meta = dict(corr.SESSION_META)
    res, mutated = corr.go_exec_groups(groups)
    distinct = {}
    for grp in groups:
        for oid, f in grp:
            if ".r" in str(oid):
                continue
            distinct.setdefault((f[1], f[2]), None)
    keys = list(distinct)

    def alone(k):
        return go_exec([("a", ["line", k[0], k[1]])]).get("a", "noanswer")
    with ThreadPoolExecutor(max_workers=16) as ex:
        for k, r in zip(keys, ex.map(alone, keys)):
            distinct[k] = r
    recs = []
    for grp in groups:
        gid = str(grp[0][0]).split(".")[0]
        before = []
        for oid, f in grp:
            if ".r" not in str(oid):
                recs.append({"group": gid, "oid": str(oid), "cfg": meta.get(gid), "cfg_str": f[1], "line_hex": f[2], "session": res.get(str(oid), "noanswer"),
                             "alone": distinct[(f[1], f[2])], "before": list(before[-40:]), "n_before": len(before)})
            before.append(f[2])
    out = {"records": recs, "mutated": mutated, "groups": len(groups), "lines": sum(len(g) for g in groups), "alone_runs": len(keys)}
    _HIST[key] = out
    return out


HISTORY_SCOPE = {
    "C06": lambda c: True,
    "C07": lambda c: True,
    "C02": lambda c: not c.enc and not c.re and not c.eager,
    "C05": lambda c: not c.enc and not c.re and not c.eager,
    "C13": lambda c: bool(c.w or c.eager),
    "C12": lambda c: bool(c.w),
    "C14": lambda c: bool(c.re),
    "C15": lambda c: bool(c.eager),
    "C09": lambda c: bool(c.enc),
    "C10": lambda c: bool(c.enc),
    "C01": lambda c: not c.re,
    "C04": lambda c: True,
    "C19": lambda c: not c.enc and not c.re and not c.eager and not c.w,
}
HISTORY_WHY = {
    "C06": "each output line must equal what its input line yields when processed on its own",
    "C07": "malformed lines must leave the processing of all other lines as usual",
    "C02": "the emitted line must be a function of the (non-sensitive part of the) line alone",
    "C05": "the placeholder must be the constant of the leaf's own class - not of what earlier lines contained",
    "C13": "a pseudonym depends only on the name component and the prefix: identical across lines",
    "C12": "each name is always replaced by the same pseudonym, nothing else differs",
    "C14": "the choice depends only on the names on the path",
    "C15": "renaming is decided by the line's own namespace only",
    "C09": "every ciphertext decrypts to exactly its own original",
    "C10": "ciphertexts are a function of the plaintext and the key",
    "C01": "a literal that is redacted when the line is processed alone must not survive because of earlier lines",
    "C04": "what is kept and what is changed is decided per line",
    "C19": "redaction of a line does not depend on earlier lines",
}


def history_violations(pid, tables, seed, tier, deep):
    h = history_records(tables, seed, tier, deep)
    scope = HISTORY_SCOPE[pid]
    viol = []
    n = 0
    tokre = pyre.compile(r"zq\d+x[se]")
    for r in h["records"]:
        c = r["cfg"]
        if c is None or not scope(c):
            continue
        n += 1
        if r["session"] == r["alone"]:
            continue
        so, ao = out_text(r["session"]), out_text(r["alone"])
        if pid == "C01":
            leaked = [t for t in set(tokre.findall(so or "")) if t not in (ao or "")]
            if not leaked:
                continue
            site = "history:literal-survives-after-earlier-lines"
        elif pid == "C07":
            if ".t" not in r["oid"]:
                continue
            site = "history:well-formed-line-after-malformed-lines"
        else:
            site = "history:line-output-depends-on-earlier-lines"
        viol.append({"site": site, "why": HISTORY_WHY[pid], "cfg": r["cfg_str"], "input": unhx(r["line_hex"]), "session_before_hex": r["before"], "lines_before": r["n_before"],
                     "in_session": (so if so is not None else r["session"])[:1500], "alone": (ao if ao is not None else r["alone"])[:1500], "group": r["group"]})
    if pid == "C06":
        for gid in h["mutated"]:
            viol.append({"site": "history:operator-tables-changed-in-place", "why": "the operator tables are constants of the program; a session left them changed", "group": gid, "input": ""})
    return viol, n, h


_ACCUM = {}


def accumulation_records(tables, seed, tier, deep):
    """State that builds up slowly: ONE process is fed, for each of many line shapes (every table path under an array of
    mixed operands, scalar operands of operator arrays, grammar lines, malformed lines), the same shape R times in a row
    and then a fixed probe set; every probe output must equal the probe's output in a fresh process."""
    key = (seed, tier == "thorough" or deep)
    if key in _ACCUM:
        return _ACCUM[key]
    big = key[1]
    rng = SplitMix(seed ^ 0xACC)
    shapes = []
    seen = set()
    for tname, path, vk, val in sweep_cases(tables):
        if vk != "arrlit" or (tname, path[:1]) in seen:
            continue
        seen.add((tname, path[:1]))
        for kind, tree in wrap_positions(tname, path, val)[:1]:
            cmd = Obj([("find", "c"), ("filter", tree)]) if kind == "query" else Obj([("aggregate", "c"), ("pipeline", [tree])])
            shapes.append(to_json(Obj([("c", "COMMAND"), ("msg", "Slow query"), ("attr", Obj([("ns", "d.c"), ("command", cmd)]))])))
    for st in ('{"$match":{"$and":["$active",{"a":1}]}}', '{"$match":{"$expr":{"$or":["$urgent","$overdue",true,7]}}}', '{"$search":{"compound":{"must":["lit",{"text":{"query":"q","path":"p"}}]}}}',
               '{"$project":{"x":{"$or":[true,"s",null]}}}', '{"$facet":{"f":[5,"s",{"$limit":3}]}}', '{"$lookup":{"from":"c2","pipeline":["s",{"$match":{"a":[[["deep"]]]}}],"as":"o"}}'):
        shapes.append('{"c":"COMMAND","msg":"Slow query","attr":{"ns":"d.c","command":{"aggregate":"c","pipeline":[%s]}}}' % st)
    for _ in range(60 if big else 12):
        shapes.append(to_json(G(rng.fork(), exotic=True).line()))
    shapes += ['not json', '{"c":"COMMAND","attr":{"command":{"filter":{"a":{"$date":1}}}}}', '{"c":"NETWORK","attr":{"remote":"10.0.0.1:5"}}', '[1,2]', '']
    shapes = [s_ for s_ in shapes if "\n" not in s_]
    if not big:
        shapes = shapes[:: max(1, len(shapes) // 70)]
    probes = [to_json(G(rng.fork()).line()) for _ in range(14)]
    probes += ['{"c":"COMMAND","msg":"Slow query","attr":{"ns":"d.c","command":{"find":"c","filter":{"name":"zq777001xs","n":{"$gt":41},"tags":{"$in":["zq777002xs","zq777003xs"]}},"$db":"d"},"planSummary":"IXSCAN { name: 1 }"}}',
               '{"c":"COMMAND","msg":"Slow query","attr":{"ns":"d.c","command":{"aggregate":"c","pipeline":[{"$match":{"$and":[{"a":"zq777004xs"},{"b":{"$oid":"5f0000000000000000000001"}}]}},{"$limit":5}],"$db":"d"}}}']
    probes = [p_ for p_ in probes if "\n" not in p_]
    R = 400 if big else 150
    cfgs = [Cfg(), Cfg(n=True, b=True, w=True)] + ([Cfg(eager=("d",)), Cfg(re="^(name|a)$"), Cfg(enc=3)] if big else [])
    recs = []
    for c in cfgs:
        cs_ = c.s() if not c.re else corr.cfg_str(c, None, extra_strings=["name", "a", "b", "n", "tags"])
        alone = {}
        for j, p_ in enumerate(probes):
            alone[j] = go_exec([("a", ["line", cs_, hx(p_)])]).get("a", "noanswer")
        ops = []
        for i, sh in enumerate(shapes):
            for k in range(R):
                ops.append(("s%d.%d" % (i, k), ["line", cs_, hx(sh)]))
            for j, p_ in enumerate(probes):
                ops.append(("p%d.%d" % (i, j), ["line", cs_, hx(p_)]))
        res = go_exec(ops, timeout=1800)
        for i, sh in enumerate(shapes):
            for j, p_ in enumerate(probes):
                got = res.get("p%d.%d" % (i, j), "noanswer")
                if got != alone[j]:
                    recs.append({"cfg": c, "cfg_str": cs_, "probe": p_, "after_shape": i, "session": got, "alone": alone[j]})
                    break
            if len(recs) >= 3:
                break
        _ACCUM.setdefault("meta", {})[c.s()] = (len(shapes), R, len(probes))
    out = {"records": recs, "shapes": shapes, "repeats": R, "probes": len(probes), "cfgs": len(cfgs)}
    _ACCUM[key] = out
    return out


def accumulation_violations(pid, tables, seed, tier, deep):
    a = accumulation_records(tables, seed, tier, deep)
    scope = HISTORY_SCOPE[pid]
    tokre = pyre.compile(r"zq\d+x[se]")
    viol = []
    for r in a["records"]:
        if not scope(r["cfg"]):
            continue
        so, ao = out_text(r["session"]), out_text(r["alone"])
        if pid == "C01":
            leaked = [t for t in set(tokre.findall(so or "")) if t not in (ao or "")]
            if not leaked:
                continue
        viol.append({"site": "history:accumulated-state", "why": HISTORY_WHY[pid], "cfg": r["cfg_str"], "input": r["probe"],
                     "accum_shapes_hex": [hx(s_) for s_ in a["shapes"][: r["after_shape"] + 1]], "accum_repeats": a["repeats"],
                     "in_session": (so if so is not None else r["session"])[:1500], "alone": (ao if ao is not None else r["alone"])[:1500],
                     "detail": "after %d line shapes fed %d times each in one process, this line comes out differently than in a fresh process" % (r["after_shape"] + 1, a["repeats"])})
    return viol, len(a["shapes"]) * (a["repeats"] + a["probes"]) * a["cfgs"]


_MULTIFILE = {}


def multifile_records(seed, tier, deep):
    """several input FILES through ProcessMongoLogFile one after the other in ONE process under ONE configuration (what Atlas
    mode does with the downloaded logs), each also alone in a fresh process: a file must come out the same wherever it stands
    in the sequence (state installed, wiped or left behind per FILE - a deferred clean-up, a reused buffer, a batch slot)."""
    key = (seed, tier, deep)
    if key in _MULTIFILE:
        return _MULTIFILE[key]
    rng = SplitMix(seed ^ 0xF11E5)
    big = tier == "thorough" or deep
    cfgs = [Cfg(), Cfg(n=True, b=True, i=True, w=True), Cfg(enc=3), Cfg(enc=3, w=True, n=True), Cfg(eager=("",)), Cfg(re="^a$")]
    recs = []
    for c in cfgs:
        for rep in range(3 if big else 1):
            A, B, C = (mixed_lines(rng, 2 + rng.below(6)) for _ in range(3))
            files = [b"\n".join(A) + b"\n", b"\n".join(B) + b"\n", b"\n".join(A) + b"\n", b"\n".join(C)]
            kinds = "pgpg" if rep % 2 == 0 else "gppp"
            ses = go_exec([("f", ["files", c.s(), kinds] + [hx(d) for d in files])]).get("f", "noanswer").split(" ")
            for i, d in enumerate(files):
                alone = go_exec([("f", ["files", c.s(), kinds[i], hx(d)])]).get("f", "noanswer")
                recs.append({"cfg": c, "cfg_str": c.s(), "index": i, "kinds": kinds, "files_hex": [hx(x) for x in files], "session": ses[i] if i < len(ses) else "noanswer", "alone": alone})
    _MULTIFILE[key] = recs
    return recs


def multifile_violations(pid, seed, tier, deep):
    scope = HISTORY_SCOPE[pid]
    viol = []
    recs = multifile_records(seed, tier, deep)
    for r in recs:
        if not scope(r["cfg"]) or r["session"] == r["alone"]:
            continue
        def txt(x):
            st, _, h_ = x.partition(":")
            try:
                return st + ": " + unhxb(h_).decode("utf-8", "replace")[:1200]
            except Exception:
                return x[:300]
        viol.append({"site": "history:file-%s-of-a-run" % ("first" if r["index"] == 0 else "later"), "why": HISTORY_WHY[pid], "cfg": r["cfg_str"],
                     "multifile_hex": r["files_hex"], "multifile_kinds": r["kinds"], "multifile_index": r["index"],
                     "input": unhxb(r["files_hex"][r["index"]]).decode("utf-8", "replace")[:1500],
                     "in_session": txt(r["session"]), "alone": txt(r["alone"]),
                     "detail": "file %d of %d processed one after the other in one process comes out differently than the same file processed alone" % (r["index"] + 1, len(r["files_hex"]))})
    return viol, len(recs)


def with_history(pid, fn):
    def wrapped(tables, seed, tier, deep):
        r = fn(tables, seed, tier, deep)
        v, n, h = history_violations(pid, tables, seed, tier, deep)
        v2, n2 = accumulation_violations(pid, tables, seed, tier, deep)
        v3, n3 = multifile_violations(pid, seed, tier, deep)
        v = v + v2 + v3
        r["stats"]["summary"]["files_in_one_run"] = n3
        r["stats"]["summary"]["accumulation_lines"] = n2
        if v:
            r["violations"] = result(r["violations"] + v, 0, 0, "", {}, [])["violations"]
            r["stats"]["summary"]["violating_sites"] = len(r["violations"])
        r["stats"]["evaluations"] += n
        r["stats"]["summary"]["evaluations"] = r["stats"]["evaluations"]
        r["stats"]["summary"]["history_lines"] = n
        r["stats"]["rule"] += "; plus history independence: %d session lines in scope (%d sessions, every (flags, line) pair also run alone in a fresh process; a line's output in the session must equal its output alone - %s)" % (n, h["groups"], HISTORY_WHY[pid])
        return r
    return wrapped


for _pid in HISTORY_SCOPE:
    if _pid in ORACLES:
        ORACLES[_pid] = with_history(_pid, ORACLES[_pid])


# ------------------------------------------------------------------------------------------- soak (one long run, two lexical classes)

_SOAK = {}


def soak(enc, big):
    key = (enc, big)
    if key not in _SOAK:
        cfg = Cfg(enc=3) if enc else Cfg()
        n = (600000 if enc else 1200000) if big else 20000
        r = go_exec([("s", ["soak", cfg.s(), str(n)])], timeout=1800).get("s", "noanswer")
        _SOAK[key] = (cfg, n, r)
    return _SOAK[key]


def with_soak(pid, fn, enc):
    def wrapped(tables, seed, tier, deep):
        r = fn(tables, seed, tier, deep)
        cfg, n, res = soak(enc, tier == "thorough" or deep)
        if not res.startswith("ok "):
            f = res.split(" ")
            v = {"site": "soak:value-treated-differently-late-in-a-long-run", "cfg": cfg.s(), "soak_n": n,
                 "detail": "one process, %d one-value lines (ordinary strings order-NNNNNNN and e-mail addresses alice.NNNNNN@example.com alternating): %s" % (
                     2 * n, ("line %s: value %r came out as %r, expected %r" % (f[1], unhx(f[2]), unhx(f[3])[:120], unhx(f[4])[:120])) if len(f) >= 5 and f[0] == "bad" else res[:200]),
                 "input": unhx(f[2]) if len(f) >= 5 and f[0] == "bad" else ""}
            r["violations"] = result(r["violations"] + [v], 0, 0, "", {}, [])["violations"]
            r["stats"]["summary"]["violating_sites"] = len(r["violations"])
        r["stats"]["evaluations"] += 2 * n
        r["stats"]["summary"]["evaluations"] = r["stats"]["evaluations"]
        r["stats"]["summary"]["soak_lines"] = 2 * n
        r["stats"]["rule"] += "; plus a soak: %d one-value lines of two lexical classes through the redactor in one process (%s), every value must be treated like the first of its class%s" % (
            2 * n, "encrypt mode" if enc else "placeholder mode", " and decrypt to itself, ciphertexts pairwise distinct" if enc else "")
        return r
    return wrapped


ORACLES["C02"] = with_soak("C02", with_wiring(ORACLES["C02"], want_enc=False), False)
ORACLES["C14"] = with_wiring(ORACLES["C14"], want_enc=False, force_mode=2)
ORACLES["C15"] = with_wiring(ORACLES["C15"], want_enc=False, force_mode=1)
ORACLES["C12"] = with_wiring(ORACLES["C12"], want_enc=False, force_mode=0)
ORACLES["C05"] = with_soak("C05", ORACLES["C05"], False)
ORACLES["C09"] = with_soak("C09", ORACLES["C09"], True)
ORACLES["C10"] = with_soak("C10", ORACLES["C10"], True)
