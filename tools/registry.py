"""Per-property registry: Lean module + property theorems, correspondence families the theorems depend on."""

ALLOWED_AXIOMS = {"propext", "Classical.choice", "Quot.sound"}

TRUSTED_BASE = [
    "tools/gotr (Go subset -> Lean do-notation over Option) + lean/Anonymongo/Model/GoSem.lean (meaning of the emitted primitives): value semantics for slices / maps with "
    "updates through pointers written back, strings as scalar-value sequences, Go int as Int, regexp.MatchString as an arbitrary predicate, the untranslated callees "
    "(redactPipelineStage, UnmarshalOrdered, redactFieldNamesFromPlanSummary, os.ReadFile, base64 decode, Encrypt) as parameters; Generated/Src.lean is regenerated from /repo/src on every run "
    "and Props/Src/* proves each translated function equal to the hand-written model function",
    "Lean 4.33 kernel; axioms allowed: propext, Classical.choice, Quot.sound (audited by #print axioms on every listed theorem); no sorry/admit/native_decide/bv_decide/own axioms (grep over lean/)",
    "translator tools/gen_tables.py + harness 'tables' mode: Generated/Tables.lean is the runtime value of the Go tables in the binary built from /repo's working tree",
    "hand-written model lean/Anonymongo/Model/* tied to the Go control flow by differential execution only (tools/corr.py: same operations on the Go harness and on the Lean driver)",
    "Go standard library and third-party behaviour re-implemented in the model and only corresponded: encoding/json tokenizer+string escaper, bufio.Scanner, crypto/sha256, regexp (e-mail, IXSCAN), strings.*",
]

PROPS = {
    "C03": dict(
        module="Anonymongo.Props.C03",
        theorems=["Anonymongo.C03_walk", "Anonymongo.C03_line", "Anonymongo.C03_one_line", "Anonymongo.C03_number_placeholder_ok", "Anonymongo.parseObj_numsOk", "Anonymongo.printObj_one_line",
                  "Anonymongo.C03_reparse", "Anonymongo.C03_bytes", "Anonymongo.C03_number_placeholder_valid", "Anonymongo.parse_print", "Anonymongo.parseObj_printObj",
                  "Anonymongo.parseObj_printable", "Anonymongo.redactLine_printable", "Anonymongo.redactLine_nodup", "Anonymongo.parseStrBody_print", "Anonymongo.parseNumber_ext"],
        extra_modules=["Anonymongo.Props.C03b"],
        corr=["line", "other", "sweep", "arb", "text"],
        statement="forall parsed lines without duplicate sibling keys, forall configurations with --redactFieldNames off: shapeEq input (redactLine input); byte level: for EVERY line the model parser accepts and every configuration, the printed redacted line contains no LF, no CR and no other control byte (one physical line) - number literals accepted by the parser are free of control characters, the walkers preserve that, the serialiser escapes every control character of keys and strings; VALID JSON, byte level (C03_reparse / C03_bytes): for every line the model parser accepts and EVERY configuration (field-name redaction, selective and encrypt mode included) parseObj (printObj (redactLine L)) = some (redactLine L) - the emitted bytes are a JSON object that parses back to exactly the redacted tree, by parse . print = id for every printable tree (string literals: UTF-8 decode . encode = id and unescape . escape = id; number literals: the scanner re-reads its own output; objects: Set-accumulation of duplicate-free members is the identity), the parser only produces printable trees, and redaction keeps trees printable (valid number placeholder decided on the regenerated tables; duplicate keys cannot appear because every rebuilt object goes through Set)",
        partial="the byte-level theorems are about the model's parser and printer; that these agree with encoding/json + OrderedMap on every byte string is the text/line correspondence (the model parser is run on arbitrary and mutated byte strings against UnmarshalOrdered, the printer on every produced tree against MarshalOrdered) and the independent-parser oracle",
    ),
    "C01": dict(
        module="Anonymongo.Props.C01",
        theorems=["Anonymongo.C01_tables", "Anonymongo.C01_dispatch", "Anonymongo.C01_zone_entry", "Anonymongo.C01_replaced",
                  "Anonymongo.C01_replaced_enc", "Anonymongo.C01_numbers_bools", "Anonymongo.C01_remote", "Anonymongo.C02_walk",
                  "Anonymongo.Facts_dispatch", "Anonymongo.Facts_cmdKeys", "Anonymongo.Facts_gate", "Anonymongo.Facts_wiring",
                  "Anonymongo.C01_tree", "Anonymongo.C01_tree_whitelisted", "Anonymongo.C01_zone_inv", "Anonymongo.Gen_no_empty_key", "Anonymongo.getOp_prov",
                  "Anonymongo.Ctx.leafOK_run", "Anonymongo.Ctx.aud_run"],
        extra_modules=["Anonymongo.Props.SrcFacts", "Anonymongo.Props.C01b"],
        corr=["line", "other", "sweep", "arb", "misc"],
        statement="WHOLE TREES (C01_tree / C01_tree_whitelisted, Props/C01b): full-redaction, placeholder mode, field-name redaction off, any other flags: from every zone state, for EVERY tree (any depth, arrays of arrays, any keys) each scalar leaf comes out as a pseudonym, as the placeholder of its lexical class, or unchanged - and unchanged ONLY if it is null, a '$...' reference, a number / boolean whose flag is off, the BSON binary subtype, or lies under a typed table entry (Exempt / FieldName / Namespace / Pipeline) whose table path is a SUBSEQUENCE of the keys from the zone / stage root down to the leaf (getOp_prov: provenance of every lookup through the OperatorArray restart, the OperatorMap cut and the last-key fallbacks), is a member of a namespace document, or sits outside the zones; whole containers are copied only with such an excuse; with the tables REGENERATED from the binary every such entry is one the whitelist of operational parameters allows (C01_tables) and no table has an empty key (Gen_no_empty_key), both kernel-decided. Components: (a) kernel-decided over the tables REGENERATED from the binary: every table entry that keeps values (Exempt / FieldName / Namespace / Pipeline) is on the whitelist of operational parameters written from the property text (Spec/Whitelist.lean); (b) every query-bearing command key opens a zone and all three command attributes are walked; (c) for every key path, stage mode and string: a string handed to redactScalarValue under a non-exempt path becomes one of five constants (placeholder mode) or its ciphertext / a constant (encrypt mode, also when Encrypt fails), numbers / booleans become the constant when their flag is on, attr.remote becomes the constant with --redactIPs; (e) the whole output is independent of the replaced literals (C02_walk)",
        partial="that a literal at a spec-sensitive position of an arbitrary tree always reaches redactScalarValue under a non-exempt path is proved per lookup (the exemption can only come from a whitelisted table entry: C01_tables) but the link 'document position -> key path handed to the lookup' is the walker model, tied to the code by correspondence, and checked end to end by the planted-token oracle (in-process and through the real CLI); selective mode is excluded by the property",
    ),
    "C02": dict(
        module="Anonymongo.Props.C02",
        theorems=["Anonymongo.C02_walk", "Anonymongo.C02_command", "Anonymongo.Ctx.run_rel", "Anonymongo.Ctx.run_scalar",
                  "Anonymongo.C02_walk_sel", "Anonymongo.Ctx.run_rel_sel", "Anonymongo.Gen_tables_nodup"],
        extra_modules=["Anonymongo.Props.C02b"],
        corr=["line", "sweep", "arb", "misc", "stream"],
        statement="placeholder mode, full-redaction mode (with or without --redactFieldNames / --redactNamespaces): from every walker state, two trees with the same keys, the same array lengths, equal kept parts and - at every leaf the walker hands to redactScalarValue under a non-exempt key path - leaves of the same lexical class (value under $date/$oid/$binary.base64, e-mail-shaped string, ordinary string, any two numbers with --redactNumbers, any two booleans with --redactBooleans) are redacted to the SAME tree; lifted to whole command documents (all zones); SELECTIVE MODE TOO (C02_walk_sel, Lemmas/RelSel run_rel_sel): for ANY predicate given as --redactFieldsRegexp the same holds - the only places where the walker's states depend on values ('$field' siblings in an array, path arguments of a search operator) are values the walker never hands to redactScalarValue, so related inputs agree on them and walk through the same states; needs the tables to hold no key twice (Gen_tables_nodup, kernel-decided over the regenerated tables, carried to every table getOp answers with by the provenance lemma)",
        partial="stated with field-name redaction off (keys unchanged); the command-level lifting (C02_command) is proved for full-redaction mode, the walker-level theorem for every mode. Which positions are sensitive is C01. Byte identity of the printed lines follows because printing is a function of the tree (model) and is corresponded.",
    ),
    "C19": dict(
        module="Anonymongo.Props.C19",
        theorems=["Anonymongo.C19_walk", "Anonymongo.C19_line", "Anonymongo.C19_constants", "Anonymongo.redactScalar_idem",
                  "Anonymongo.C19_bytes", "Anonymongo.C03_reparse", "Anonymongo.parseObj_printObj",
                  "Anonymongo.C19_file", "Anonymongo.C19_file_generic", "Anonymongo.C06_output_lines"],
        extra_modules=["Anonymongo.Props.C03b", "Anonymongo.Props.C19b"],
        corr=["line", "text", "sweep"],
        statement="placeholder mode, value-redaction flags only (any of --redactNumbers/--redactBooleans/--redactIPs, any --replacement that is not e-mail shaped, incl. '$...' and empty): redactLine (redactLine L) = redactLine L for every line without duplicate sibling keys; every placeholder classifies as a member of its own class (redactScalar_idem); the regenerated e-mail placeholder is e-mail shaped and the default replacement is not (kernel decide); BYTE level (C19_bytes): for every input line the parser accepts, the emitted line parses (to exactly the redacted tree) and redacting and printing that parse gives the same bytes again; FILE level (C19_file): the output file of a fault-free run of the stream loop, fed back through the loop with the same flags, is reproduced byte for byte and the second run ends without error (the physical lines of the output are exactly the emitted lines: C06_output_lines; each is a fixed point of the line function), provided no OUTPUT line exceeds the reader's 65 535-byte limit",
        partial="selective mode and the pseudonymising flags are covered by the oracle only (the property asks for idempotence 'in default placeholder mode'); that the model parser/printer equal encoding/json + OrderedMap is the text correspondence plus the second pass through the real CLI",
    ),
    "C14": dict(
        module="Anonymongo.Props.C14",
        theorems=["Anonymongo.C14_walk", "Anonymongo.C14_forced", "Anonymongo.C14_path_query", "Anonymongo.C14_path_root", "Anonymongo.C14_path_stage",
                  "Anonymongo.C14_value_free", "Anonymongo.Ctx.relAt_run", "Anonymongo.C14_walk_ns", "Anonymongo.Ctx.selRelNs_run"],
        extra_modules=["Anonymongo.Props.C14b"],
        corr=["line", "sweep", "arb", "misc"],
        statement="for an ARBITRARY predicate on names (not matching the empty name), every walker state and every tree without duplicate sibling keys: at every scalar leaf, (K) if no key on the accumulated path matches, no '$field' sibling rule fires and the leaf is not inside a search stage, it is emitted unchanged; (R) if some key on the path matches (or the sibling rule fires), a leaf handed to redactScalarValue is redacted exactly as in full-redaction mode - the class placeholder unless the key path is exempt; the accumulated path is the list of keys from the root of the filter / update / document (query walker) or of the stage (stage walker), arrays transparent; the decision never depends on the value",
        partial="stated with field-name pseudonymisation off; --redactNamespaces either way (C14_walk_ns, Props/C14b: with it on, the only leaves touched without a matching name are the namespace positions, which become the pseudonym of the input string; C14_walk is the flag-off case); the path restarts at sub-pipelines ($facet, $lookup.pipeline, $unionWith.pipeline); 'names' include operator keys (the code matches the expression against every key on the path, so an expression that matches an operator key such as $date redacts more than the property's 'field name' reading - the oracle uses expressions built from field names); the regexp engine itself (regexp.MatchString) is corresponded through the shipped match table",
    ),
    "C15": dict(
        module="Anonymongo.Props.C15",
        theorems=["Anonymongo.C15_other_ns", "Anonymongo.C15_eager_iff", "Anonymongo.C15_key_rename", "Anonymongo.C15_siblings", "Anonymongo.C15_refs",
                  "Anonymongo.C15_values", "Anonymongo.C15_plan_collscan", "Anonymongo.C15_plan_instances", "Anonymongo.C15_plan_def", "Anonymongo.C15_plan_consistent",
                  "Anonymongo.C15_plan_general", "Anonymongo.redactIndexField_member", "Anonymongo.redactIxscans_no_I", "Anonymongo.C15_bare_core_keys", "Anonymongo.C15_plan_all", "Anonymongo.redactIxscans_plan", "Anonymongo.redactIxscans_pre"],
        extra_modules=["Anonymongo.Props.C15b", "Anonymongo.Props.C15c"],
        corr=["line", "misc", "sweep", "arb"],
        statement="a line whose attr.ns no configured path prefixes is redacted exactly as without the flag; the mode is on for every command document of a gated line iff some path is a prefix of attr.ns; with the mode on the query walker renames a non-operator key to hashName key and keeps operator keys, one output member per input member in order; a '$field' reference that is not an operator name becomes hashName field - the same pseudonym as the key - in the query walker, the array walker and as a direct value in the stage walker; values that are not '$...' strings are redacted as without the flag; plan summary: COLLSCAN unchanged, each index key rewritten where it stands, with the same function the filter keys go through - GENERAL (C15_plan_general): for an index scan over ANY number of well-formed members (spaces, key, spaces, colon, direction) every key is replaced where it stands by its OWN pseudonym whatever the other keys are, spacing / directions / separators kept, text without a further scan unchanged; plus kernel-evaluated instances incl. overlapping names",
        partial="C15_plan_all (Props/C15c) covers summaries with ANY number of index scans ANYWHERE (pre1 SCAN1 ... pren SCANn tail, the text around the scans holding no 'IX': FETCH, IDHACK, OR {…}, COUNT_SCAN, DISTINCT_SCAN, TEXT all allowed) over well-formed members: every key of every scan is replaced where it stands by its own pseudonym and nothing else is touched (C15_plan_general is the one-scan-at-the-start case); odd shapes (empty members, several colons, missing braces) are corresponded (2.5k generated summaries) and run through the hostile-line oracle; 'no such name remains anywhere in the line' holds for the listed positions only: KNOWN FINDINGS (recorded in known_findings.jsonl, README marks the feature experimental): projection document and distinct key not walked, Atlas Search path arguments, arrays of names under FieldName-typed arguments; the stage walker also renames expression operators missing from the tables ($sum, $cond ...) - over-renaming, not a leak",
    ),
    "C16": dict(
        module="Anonymongo.Props.C16",
        theorems=["Anonymongo.Atlas.C16_requests", "Anonymongo.Atlas.C16_outputs", "Anonymongo.Atlas.C16_window", "Anonymongo.Atlas.C16_hosts", "Anonymongo.Atlas.C17_no_leftovers",
                  "Anonymongo.Facts_atlas_requests", "Anonymongo.Facts_footprint_atlas", "Anonymongo.C16_window_default", "Anonymongo.C16_window_given", "Anonymongo.C16_window_one_sided", "Anonymongo.C16_window_clock_free", "Anonymongo.C16_window_model"],
        extra_modules=["Anonymongo.Props.SrcFacts", "Anonymongo.Props.C16b"],
        corr=[],
        statement="over the trace model of Atlas mode, for EVERY number of hosts: when nothing fails the authenticated requests are the cluster lookup followed by exactly one log download per host in host order, and <outputFile>.<i> receives the redaction of host i's file for i = 0..n-1 in order, each once; without dates the window is (now - 7 days, now) with start < end, with dates it is what was given; hosts are the members of the connection string in order with ports stripped; REGENERATED facts (Facts_atlas_requests, kernel-decided): the two request templates of atlas.go (cluster description; host log with endDate / startDate), the literal request headers, the temporary-file pattern and the <outputFile>.<i> pattern are exactly the expected ones and the repository sets no other header",
        partial="the time window is proved about the function TRANSLATED from reader.go on every run (Generated/Window.lean, Props/C16b: no dates -> the last seven days ending at the clock read; both dates -> exactly those; never the clock unless both are absent; the hand-written Atlas.window equals it wherever main can call it); the trace model (Model/Atlas.lean) covers the orchestration only; net/http, the digest negotiation, connstring.Parse, gzip, temp-file naming and 'stored verbatim' are runtime: tied by whole-program runs against an in-process fake endpoint (request log, query parameters, valid digest responses, every <out>.<i> byte-compared with the tool's own redaction of the same bytes); SRV connection strings need DNS and are exercised as the error path only",
        trusted=["net/http, mongodb-forks/digest, mongo-driver connstring, compress/gzip, os.CreateTemp"],
    ),
    "C17": dict(
        module="Anonymongo.Props.C16",
        theorems=["Anonymongo.Atlas.C17_no_leftovers", "Anonymongo.Atlas.downloadLoop_live", "Anonymongo.Atlas.fileLoop_live", "Anonymongo.Facts_cleanup"],
        corr=[],
        statement="over the trace model, for EVERY number of hosts, every outcome of the cluster lookup, every download fault (HTTP status, transport error, temp-file creation failure, body cut mid-way - where a partial file exists) at every host, every per-file fault (output not creatable, line count, decompression / redaction failure) at every file, and on success: when the trace ends (return or os.Exit) no temporary file is alive; deferred functions do not run after os.Exit and the model says so",
        partial="OS behaviour (os.Remove failing, a killed process, signals) is outside the model; tied by whole-program runs with a private TMPDIR listed after every faulty run (1..4 hosts, every fault kind at every position)",
        trusted=["os.Remove / os.CreateTemp semantics"],
    ),
    "C18": dict(
        module="Anonymongo.Props.C18",
        theorems=["Anonymongo.Cli.C18_exact", "Anonymongo.Cli.C18_clean", "Anonymongo.Cli.C18_modes",
                  "Anonymongo.Cli.C18_source_exact", "Anonymongo.Cli.C18_model_is_source"],
        extra_modules=["Anonymongo.Props.C18b"],
        corr=[],
        statement="forall 2^13 presence/absence valuations (decided in the kernel): validate accepts iff Spec.wellDefined; a rejection has no effect but stderr+exit 1; an accepted job enters exactly one mode; REGENERATED CHAIN (Props/C18b): tools/extract executes the `if ... os.Exit(1)` chain of main.go's Run closure symbolically over the presence atoms (flag variables, len(args), stdinHasData, the environment fallback of the key pair) on every run -> Generated/CliChain.lean; C18_source_exact decides, for all 2^13 valuations, that what the SOURCE's chain lets through is exactly the rule table's well-defined jobs, and C18_model_is_source that the hand-written transliteration rejects exactly what the source's chain rejects",
        partial="the symbolic execution covers the chain up to the first Set...() call and refuses constructs it cannot express (a translator failure, handled like a broken proof); valuations on which the regenerated chain and the rule table disagree are synthesised and run through the real CLI first, so a broken obligation comes with its failing input; value-dependent behaviour (an EMPTY file argument, odd flag values), cobra/pflag parsing and the OS are runtime: tied by running the real CLI on the combinations (exhaustively in the thorough tier)",
        trusted=["spf13/cobra + pflag flag parsing, os.Stdin.Stat(), os.Create: exercised through the real binary, not modelled"],
    ),
    "C11": dict(
        module="Anonymongo.Props.C11",
        theorems=["Anonymongo.KeyFile.C11_create", "Anonymongo.KeyFile.C11_reuse", "Anonymongo.KeyFile.C11_refuse", "Anonymongo.KeyFile.C11_unusable_iff",
                  "Anonymongo.KeyFile.C11_seq", "Anonymongo.KeyFile.C11_never_overwrite",
                  "Anonymongo.C11_create_std", "Anonymongo.C11_seq_std", "Anonymongo.C11_file_size", "Anonymongo.Base64.dec_enc"],
        extra_modules=["Anonymongo.Props.C09c"],
        corr=["crypto"],
        statement="for ANY base64 codec with dec(enc b) = b, any fresh key material, any file content and ANY number of runs: no key file -> the fresh 64-byte key is stored and reads back as the same key, and it is the key in force; a valid key file is used and left byte-for-byte untouched (fresh material ignored); an unusable key (undecodable, not 64 bytes, directory, unreadable, path that cannot be created or examined) makes the run fail before any processing and is never overwritten; over any sequence of runs starting without a key, every later run proceeds with the first run's key and the file keeps the first run's bytes; CONCRETE codec (Props/C09c keyCodec = encoding/base64 StdEncoding on the file bytes, round trip PROVED): the stored file is 88 bytes and reads back as the same key",
        partial="the model of the key step (Model/KeyFile.lean: FileExists / GenerateKey / WriteKeyToFile / ReadKeyFromFile as a state transition over an abstract file-system object) is tied to the code by whole-program runs over every initial state x run sequence (quick: 2 sequences, thorough: 5), comparing key bytes, mode, exit status and output; 'fresh random', 0600 permission bits, 'stored before any ciphertext is written' (checked with a run aborted by an over-long line) and the OS behaviour of stat / write on directories are runtime; 'unreadable' cannot be produced as root in this sandbox",
        trusted=["encoding/base64 StdEncoding computes the function of Model/Base64.lean (CR / LF ignored anywhere, mandatory padding, unused bits unchecked): corresponded on key-file contents and damaged texts, round trip proved", "crypto/rand", "os.Stat / os.WriteFile / os.ReadFile semantics"],
    ),
    "C12": dict(
        module="Anonymongo.Props.C12",
        theorems=["Anonymongo.C12_attr_ns", "Anonymongo.C12_cmd_attrs", "Anonymongo.C12_cmd_fields", "Anonymongo.C12_spec_fields", "Anonymongo.C12_stage_tables",
                  "Anonymongo.C12_stage_leaf", "Anonymongo.C12_nsDoc", "Anonymongo.C12_componentwise", "Anonymongo.C04_attr_frame", "Anonymongo.C04_cmd_frame",
                  "Anonymongo.C12_confined_walk", "Anonymongo.Facts_cmdKeys"],
        extra_modules=["Anonymongo.Props.C12b", "Anonymongo.Props.SrcFacts"],
        corr=["line", "other", "sweep", "misc"],
        statement="with the flag on: attr.ns becomes its pseudonym on every line with a string attr.ns (gated or not); on gated lines all three command attributes go through cmdDoc, which turns the string value of every searched field into its pseudonym; the fields the property names are among the regenerated searchedFields and the stage positions it names are typed Namespace in the regenerated tables ($out/$unionWith/$merge also as string-form namespace stages) [kernel decide]; Namespace-typed stage arguments (string, document, string-stage form) become pseudonyms when the flag is on and are copied when it is off; 'db.coll' -> 'P(db).P(coll)'; attributes and command members outside the namespace positions are unchanged under every flag set",
        partial="'nothing else in the line differs from the run without the flag' inside the zones is C12_confined_walk (two-configuration simulation: flag-on and flag-off outputs have the same structure, leaves equal or flag-on leaf = pseudonym of the INPUT string there), stated with field-name redaction off; the oracle checks the same on the real code. Absence of the names from the printed line follows from the tree statements only for names that do not occur in kept parts; checked by the planted-name oracle",
    ),
    "C13": dict(
        module="Anonymongo.Props.C13",
        theorems=["Anonymongo.C13_form", "Anonymongo.C13_depth", "Anonymongo.C13_dollar", "Anonymongo.C13_componentwise", "Anonymongo.C13_inj_mod", "Anonymongo.C13_pure"],
        corr=["misc"],
        statement="forall names and replacement texts: every block is <replacement>_<16 lower-case hex>; one block per dotted component; leading '$' irrelevant; P(a.b) = P(a).P(b); equal pseudonyms iff equal 8-byte SHA-256 prefixes",
        partial="'different components always receive different pseudonyms' is false for all strings (2^64 outputs): proved up to a collision of truncated SHA-256 (C13_inj_mod); distinctness over all names of length <= 3 over 40 symbols is ENUMERATED on the implementation, not proved. SHA-256 in the model is corresponded with crypto/sha256, not verified. Stability across processes is sampled (two processes, permuted call orders).",
    ),
    "C06": dict(
        module="Anonymongo.Props.C06",
        theorems=["Anonymongo.C06_local", "Anonymongo.C06_skip", "Anonymongo.C07_others", "Anonymongo.C06_faultfree", "Anonymongo.C06_crlf", "Anonymongo.C06_final",
                  "Anonymongo.parseObj_append", "Anonymongo.C06_output_lines"],
        extra_modules=["Anonymongo.Lemmas.ParseExt", "Anonymongo.Props.C19b"],
        corr=["stream", "line", "text"],
        statement="for an arbitrary line function: processLines (A++B) = processLines A ++ processLines B; skipped lines contribute nothing; a fault-free run of the scan loop emits exactly the order-preserving map over the scanned lines; CRLF and LF texts of the same lines scan to the same tokens; the final newline is optional",
        partial="channel independence (file / .gz / stdin x stdout / --outputFile, progress bar) is runtime behaviour of os, gzip and the terminal: established by whole-program runs compared byte for byte with the per-line results, not by a theorem; 'is a JSON object' is the model parser, corresponded with encoding/json",
        trusted=["bufio.Scanner / ScanLines semantics (64 KiB token limit, CR dropping, final unterminated token) are re-implemented in Model/Stream.lean and corresponded"],
    ),
    "C07": dict(
        module="Anonymongo.Props.C06",
        theorems=["Anonymongo.C07_others", "Anonymongo.C07_long", "Anonymongo.C06_faultfree", "Anonymongo.C03_line"],
        extra_modules=["Anonymongo.Props.C03"],
        corr=["text", "line", "stream", "sweep", "arb", "misc"],
        statement="the model's line function is total by construction (every Go type assertion / index is a checked match in the model); one line yields at most one output line and leaves the others untouched (C07_others); the scan stops with an error exactly at the first line longer than 65535 bytes and delivers the lines strictly before it (C07_long)",
        partial="that the Go code does not panic where the model answers cannot be proved about Go: it is the correspondence (panics are recovered by the harness and reported as a disagreement) on hostile inputs: every JSON token class, truncations, byte flips, invalid UTF-8, wrong value kinds under every table key and extended-JSON wrapper, nesting depth 20000",
    ),
    "C08": dict(
        module="Anonymongo.Props.C06",
        theorems=["Anonymongo.C08_ok_iff", "Anonymongo.C08_write_prefix", "Anonymongo.C08_read_prefix", "Anonymongo.emitAll_prefix",
                  "Anonymongo.C08_read_cut", "Anonymongo.parseObj_append", "Anonymongo.parseObj_cut_rejected", "Anonymongo.parseValue_ext", "Anonymongo.parseStrBody_ext"],
        extra_modules=["Anonymongo.Lemmas.ParseExt"],
        corr=["stream", "text"],
        statement="for every input, read-fault position and failing-write index: the result is ok iff no fault was reached and no line is over-long; bytes written before a failing write are a whole-line prefix of the fault-free output; READ FAULT ANYWHERE (C08_read_cut): the input being complete lines A, a piece p of the next line (empty, partial or the whole line without its newline) and anything after it, a read failing once A and p were delivered writes exactly the fault-free output of A - p is never processed - which is a prefix of the fault-free output of the whole input, and the result is the read error; PARSER (Lemmas/ParseExt): what follows a value does not matter (parseValue_ext / parseStrBody_ext: accepted on x leaving r => accepted on x ++ q leaving r ++ q with the same result, any larger fuel), hence an accepted line followed by anything is accepted iff that is white space, as the SAME object (parseObj_append), and a line cut inside or right behind its object is never accepted as a different line (parseObj_cut_rejected)",
        partial="the stream loop model (Model/Stream.lean: bufio.Scanner delivering the unterminated remainder also after a read error, set aside since fix 17c9f34) is tied to the code by the stream correspondence with fault scripts (read faults at chunk sizes 1/64/4096, positions behind every closing brace); real devices (/dev/full, closed pipe) and gzip damage are runtime: whole-program runs",
    ),
    "C04": dict(
        module="Anonymongo.Props.C04",
        theorems=["Anonymongo.C04_top_frame", "Anonymongo.C04_attr_frame", "Anonymongo.C04_flags", "Anonymongo.C04_ungated", "Anonymongo.C04_ungated_noflags",
                  "Anonymongo.C04_cmd_frame", "Anonymongo.C04_kept_params", "Anonymongo.C04_limit_skip", "Anonymongo.C04_numtext", "Anonymongo.C03_line"],
        extra_modules=["Anonymongo.Props.C03"],
        corr=["line", "other", "text", "sweep"],
        statement="for every line, flag set and plan-summary rewriter: top-level members other than attr, attributes other than the three command documents / remote / ns / planSummary, and members of a command document other than the zone keys (and string namespace fields under --redactNamespaces) are emitted unchanged, keys and order preserved; remote changes only with --redactIPs, ns only with --redactNamespaces, planSummary only with a --redactFieldNames path; on ungated lines nothing but remote / ns changes; $limit/$skip are exempt under every key path and the listed top-level stage parameters are exempt (kernel decide over the regenerated tables); numbers print as their literal text; keys inside zones: C03_line",
        partial="string contents / number text surviving the parser and the printer (escapes, 64-bit integers, exponents) is the byte-level model, corresponded on exotic literals and checked by the exact-tree oracle; a $limit/$skip argument that is a DOCUMENT (canonical extended JSON {$numberLong}) inside a nested $lookup/$unionWith pipeline is walked by the query walker, not copied (the theorem states the scalar case there)",
    ),
    "C05": dict(
        module="Anonymongo.Props.C05",
        theorems=["Anonymongo.C05_valid", "Anonymongo.C05_class", "Anonymongo.C05_decision_value_free",
                  "Anonymongo.C05_tree", "Anonymongo.C05_placeholder_member", "Anonymongo.classOf_kind", "Anonymongo.Ctx.typeOK_of_leafOK",
                  "Anonymongo.C03_reparse", "Anonymongo.parse_printStr"],
        extra_modules=["Anonymongo.Props.C05b", "Anonymongo.Props.C03b"],
        corr=["misc", "sweep", "line"],
        statement="the regenerated constants are a valid ISO instant / 24 hex digits / canonical base64 / e-mail shaped / 0 / false (kernel decide over Generated.tables); for every key path, value, mode and flag set in placeholder mode redactScalarValue returns the value unchanged for path reasons only, or exactly the placeholder of the value's class (date/oid/base64/subType/e-mail/string/number/bool/null)",
        partial="WHOLE TREES (C05_tree, Props/C05b): placeholder mode, full-redaction mode, field-name redaction off, regenerated tables: from every walker state, for EVERY tree, each output leaf is the input leaf, a pseudonym, or the placeholder of the input leaf's class judged under the key path of that very position (PathOf), and that placeholder is a well-formed member of the class (ISO instant / 24 hex digits / canonical base64 / e-mail shaped / 0 / false) of the same JSON kind as the leaf (C05_placeholder_member); an arbitrary --replacement survives serialisation: parse_printStr / C03_reparse (parsing the emitted line gives back exactly the tree the redactor built, for every string). Left to the correspondence: that the Go walkers hand redactScalarValue the parent / grand-parent keys the model does (the leaf-by-leaf oracle and the table sweep; this is where the slice-aliasing defect lived); selective / encrypt modes are C14 / C10",
    ),
    "C09": dict(
        module="Anonymongo.Props.C09",
        theorems=["Anonymongo.C09_roundtrip", "Anonymongo.C09_tamper", "Anonymongo.C10_inj",
                  "Anonymongo.C09_roundtrip_aes", "Anonymongo.C09_tamper_aes", "Anonymongo.C09_short_refused", "Anonymongo.C09_leaf_length", "Anonymongo.C09_leaf_verbatim", "Anonymongo.aesEncFn_eq",
                  "Anonymongo.Siv.dec_enc", "Anonymongo.Siv.dec_only", "Anonymongo.Siv.decWith_encWith", "Anonymongo.Siv.decWith_only", "Anonymongo.Siv.ctr_ctr",
                  "Anonymongo.Base64.dec_enc"],
        extra_modules=["Anonymongo.Props.C09c"],
        corr=["line", "crypto"],
        statement="generic: for ANY deterministic AEAD and base64 codec satisfying dec(enc p) = p and 'accepted => genuine', the leaf emitted for s decrypts through the decrypt command to exactly utf8(s), and anything the decrypt command accepts is the genuine ciphertext of what it prints. CONCRETE (Props/C09c): the AEAD is the RFC 5297 SIV construction (CMAC-S2V with one empty associated-data component, CTR with the two cleared bits) over AES-256 exactly as Tink computes it, the codec is encoding/base64 StdEncoding; both laws are THEOREMS for every key, every plaintext length (incl. 0) and every pair of block functions returning 16 bytes (Siv.dec_enc, Siv.dec_only: CTR under one SIV is an involution, the tag is recomputed from the recovered plaintext; Base64.dec_enc) - so C09_roundtrip_aes / C09_tamper_aes carry no library assumption; a ciphertext shorter than the 16-byte SIV is always refused; the leaf has 4*ceil((|utf8 s|+16)/3) characters",
        partial="that Tink and encoding/base64 COMPUTE these functions is the crypto correspondence (ciphertext bytes of the model and of Tink compared for every length 0..49 and block boundaries up to 4097 bytes, several keys, damaged ciphertexts / keys through both decryptors, base64 texts with line breaks / damaged padding / non-zero unused bits through both decoders, key-file contents through both readers, whole lines in real encrypt mode byte for byte). 'a different key / an altered ciphertext fails' is a 2^-128 statement about AES, not provable: sampled end to end through the real CLI (bit flips, truncations, extensions, wrong key)",
        trusted=["tink-go AES-SIV computes the function of Model/Siv.lean + Model/Aes.lean (corresponded byte for byte, not verified); os.ReadFile of the key file"],
    ),
    "C10": dict(
        module="Anonymongo.Props.C09",
        theorems=["Anonymongo.C10_det", "Anonymongo.C10_inj", "Anonymongo.C10_closed", "Anonymongo.C10_bad_key", "Anonymongo.C10_equiv_leaf",
                  "Anonymongo.C10_equiv_walk", "Anonymongo.C10_same_keys", "Anonymongo.Ctx.run_flow", "Anonymongo.Facts_wiring",
                  "Anonymongo.C10_inj_aes", "Anonymongo.aesEncFn_eq", "Anonymongo.Siv.dec_enc"],
        extra_modules=["Anonymongo.Props.C10", "Anonymongo.Props.SrcFacts", "Anonymongo.Props.C09c"],
        corr=["line", "misc", "sweep", "crypto", "stream"],
        statement="the ciphertext leaf is a function of (key, plaintext); injective; with an encryption function that fails the leaf is the placeholder (never the plaintext); at every leaf encrypt mode and placeholder mode take the same decision and differ only where placeholder mode replaces a string; CONCRETE: with AES-256-SIV as Tink computes it and std base64 the leaf is base64(SIV || CTR(utf8 s)) - a pure function of (key bytes, string) with no nonce, counter or process state (aesEncFn_eq) - and equal leaves mean equal plaintext bytes (C10_inj_aes, from the proved round trip)",
        partial="C10_equiv_walk lifts the leaf statement to every tree and walker state (two-configuration simulation run_flow: same keys, order, lengths; leaves equal except placeholder-string vs ciphertext of the INPUT string at that position), with field-name redaction off; --replacement reaching its setter unconditionally is the regenerated-fact obligation Facts_wiring and the CLI-vs-in-process oracle; determinism across separate processes is a property of Tink and key loading: sampled",
        trusted=["tink-go AES-SIV computes the function of Model/Siv.lean (corresponded byte for byte on fixed keys in every run, hence across processes)"],
    ),
    "C20": dict(
        module="Anonymongo.Props.C20",
        theorems=["Anonymongo.Atlas20.C20_ni", "Anonymongo.Atlas20.C20_nochallenge", "Anonymongo.Atlas20.exchange_noauth", "Anonymongo.Atlas20.C20_source_uses", "Anonymongo.Facts_priv", "Anonymongo.Facts_atlas_requests"],
        extra_modules=["Anonymongo.Props.SrcFacts"],
        corr=[],
        statement="(1) kernel-decided over facts REGENERATED from atlas.go / main.go with go/ast: every use of the identifiers privateKey / atlasPrivateKey is a parameter, a declaration / flag binding, a copy, an emptiness test, a pass-through to the three Atlas functions or digest.Transport{Password: ...} - nothing else; (2) in the data-flow model with the key as an explicit input and the digest computation an ARBITRARY function D: all artefacts (request lines, headers, stdout, stderr with quoted server bodies, temp files) depend on the key only through D k - two keys with equal digest responses give identical artefacts; if the server never challenges, no artefact depends on the key and no request carries an Authorization header",
        partial="that the digest library only hashes the password (and refuses Basic challenges) is library behaviour; tied by whole-program runs against the fake endpoint searching every captured artefact for the key in eight encodings",
        trusted=["mongodb-forks/digest: uses the password only inside the MD5 digest response; net/http does not log"],
    ),
}

# ---- statelessness: every property whose theorems are about the pure line model also depends on the
# regenerated source facts "no package-level state beyond the option variables and the constant tables"
# (Props/SrcFacts.lean) and on the session correspondence (many lines under one configuration in one
# process, model line by line).
STATE_FACTS = ["Anonymongo.Facts_globals", "Anonymongo.Facts_writes", "Anonymongo.Facts_mapping_write_only",
               "Anonymongo.Facts_inits", "Anonymongo.Facts_footprint"]
PURE_MODEL_PROPS = ["C01", "C02", "C03", "C04", "C05", "C06", "C07", "C09", "C10", "C12", "C13", "C14", "C15", "C19"]
STATE_NOTE = ("; STATE: the model is a pure function of (line, flags) - tied to the source by the regenerated facts "
              "Facts_globals / Facts_writes / Facts_mapping_write_only / Facts_inits / Facts_footprint (the package-level variables are the operator "
              "tables, three regular expressions, the option variables - each written by its own setter only - and one write-only side table; no init "
              "function) and by the session correspondence + history oracle (every line of a session must come out as when processed alone)"
              "; VOCABULARY (walker properties): Facts_vocabulary - the string literals in key positions of anonymizer.go / helpers.go are exactly the keys the model singles out")
# the walker / line model singles out exactly the keys the source singles out (Facts_vocabulary)
VOCABULARY_PROPS = ["C01", "C02", "C03", "C04", "C05", "C12", "C14", "C15", "C19"]
for _p in PURE_MODEL_PROPS:
    _s = PROPS[_p]
    _s["theorems"] = _s["theorems"] + [t for t in STATE_FACTS + (["Anonymongo.Facts_vocabulary"] if _p in VOCABULARY_PROPS else []) if t not in _s["theorems"]]
    if "session" not in _s["corr"]:
        _s["corr"] = _s["corr"] + ["session"]
    _s["statement"] = _s.get("statement", "") + STATE_NOTE

# ---- one module per source-fact obligation (Props/Facts/*): a property depends on exactly the fact modules whose
# theorems it lists, so a fact that stops checking affects only the properties that rest on it
FACT_MODULES = {
    "Anonymongo.Facts_dispatch": "Dispatch", "Anonymongo.Facts_nested_ops": "Dispatch", "Anonymongo.Facts_cmdKeys": "CmdKeys",
    "Anonymongo.Facts_gate": "Gate", "Anonymongo.Facts_priv": "Priv", "Anonymongo.Facts_wiring": "Wiring",
    "Anonymongo.Facts_globals": "Globals", "Anonymongo.Facts_writes": "Writes", "Anonymongo.Facts_mapping_write_only": "Mapping",
    "Anonymongo.Facts_inits": "Inits", "Anonymongo.Facts_footprint": "Footprint", "Anonymongo.Facts_footprint_atlas": "Footprint",
    "Anonymongo.Facts_atlas_requests": "AtlasReq", "Anonymongo.Facts_vocabulary": "Vocabulary", "Anonymongo.Facts_regex": "Regex", "Anonymongo.Facts_cleanup": "Cleanup",
}
# ---- functions TRANSLATED from the source on every run (tools/gotr -> Generated/Src.lean) and proved equal to the model
# (Props/Src/*): the leaf / lookup theorems of these properties are thereby statements about the current text of
# redactScalarValue, redactString, reMatchesAnyKeyInPath, IsEmail, getOp, traverseMapPath, withinSearchUserDocument,
# RemoveElementAfter, RemoveElementsBeforeIncluding, isFieldNameValue, isRedactableFieldPatternInArray, isInSearchStage, augmentOp
SRC_MODULES = {
    "Anonymongo.Src.redactScalarValue_eq": "Scalar", "Anonymongo.Src.redactScalarValue_eq_gen": "Scalar", "Anonymongo.Src.Gen_emailPH": "Scalar",
    "Anonymongo.Src.getOp_eq": "Path", "Anonymongo.Src.traverseMapPath_eq": "Path", "Anonymongo.Src.traverseMapPath_step": "Path",
    "Anonymongo.Src.traverseFuel_enough": "Path",
    "Anonymongo.Src.redactString_eq": "Leaf", "Anonymongo.Src.reMatchesAnyKeyInPath_eq": "Leaf", "Anonymongo.Src.IsEmail_eq": "Leaf",
    "Anonymongo.Src.withinSearchUserDocument_eq": "PathFns", "Anonymongo.Src.RemoveElementAfter_eq": "PathFns",
    "Anonymongo.Src.RemoveElementsBeforeIncluding_eq": "PathFns",
    "Anonymongo.Src.isFieldNameValue_eq": "Helpers", "Anonymongo.Src.isRedactableFieldPatternInArray_eq": "Helpers",
    "Anonymongo.Src.isInSearchStage_eq": "Helpers", "Anonymongo.Src.augmentOp_eq": "Helpers",
    "Anonymongo.Src.redactOperation_eq": "Dispatch", "Anonymongo.Src.redactOperation_seq": "Dispatch", "Anonymongo.Src.seqOp_map": "Dispatch",
    "Anonymongo.Src.seqVal_eq": "Dispatch", "Anonymongo.Src.redactNamespaceFields_eq": "Dispatch", "Anonymongo.Src.Gen_searchedFields": "Dispatch",
    "Anonymongo.Src.redactCommand_eq": "Command", "Anonymongo.Src.redactNamespace_eq": "Command", "Anonymongo.Src.blkInner": "Command",
    "Anonymongo.Src.blkLoop": "Command", "Anonymongo.Src.blkLoopG": "Command", "Anonymongo.Src.opsLoop": "Command",
    "Anonymongo.Src.RedactMongoLog_eq": "Line", "Anonymongo.Src.RedactMongoLog_eq_gen": "Line", "Anonymongo.Src.RedactMongoLog_err": "Line",
    "Anonymongo.Src.k12_eq": "Line", "Anonymongo.Src.k3_eq_obj": "Line", "Anonymongo.Src.attrFrom12_model": "Line", "Anonymongo.Src.Gen_ipPH": "Line",
    "Anonymongo.Src.RedactMongoLog_returns": "EndToEnd", "Anonymongo.Src.C04_src": "EndToEnd", "Anonymongo.Src.C01_remote_src": "EndToEnd",
    "Anonymongo.Src.witness_callees": "EndToEnd", "Anonymongo.Src.C07_src": "EndToEnd", "Anonymongo.Src.C07_src_len": "ParseDepth", "Anonymongo.Src.parseObj_depth": "ParseDepth",
    "Anonymongo.Src.ReadKeyFromFile_eq": "Key", "Anonymongo.Src.ReadKeyFromFile_accepts": "Key",
    "Anonymongo.Src.WriteKeyToFile_eq": "Key", "Anonymongo.Src.WriteKeyToFile_model": "Key", "Anonymongo.Src.Write_then_Read": "Key",
    "Anonymongo.Src.FileExists_eq": "Key", "Anonymongo.Src.FileExists_model": "Key",
    "Anonymongo.Src.HashName_eq": "Hash", "Anonymongo.Src.trimLeftCutset_dollar": "Hash",
    "Anonymongo.Src.redactQueryValues_eq": "Walk", "Anonymongo.Src.redactArrayValuesWithKey_eq": "Walk", "Anonymongo.Src.redactArrayValues_eq": "Walk",
    "Anonymongo.Src.redactQueryValues_eq_gen": "Walk", "Anonymongo.Src.QA_all": "Walk", "Anonymongo.Src.Q_step": "Walk", "Anonymongo.Src.A_step": "Walk",
}
_WALK = ["Anonymongo.Src.redactQueryValues_eq", "Anonymongo.Src.redactArrayValuesWithKey_eq", "Anonymongo.Src.redactArrayValues_eq",
         "Anonymongo.Src.redactQueryValues_eq_gen", "Anonymongo.Src.QA_all", "Anonymongo.Src.Q_step", "Anonymongo.Src.A_step"]
_LEAF = ["Anonymongo.Src.redactScalarValue_eq", "Anonymongo.Src.redactScalarValue_eq_gen", "Anonymongo.Src.Gen_emailPH", "Anonymongo.Src.getOp_eq",
         "Anonymongo.Src.traverseMapPath_eq", "Anonymongo.Src.redactString_eq", "Anonymongo.Src.reMatchesAnyKeyInPath_eq", "Anonymongo.Src.IsEmail_eq"]
_PATH = ["Anonymongo.Src.getOp_eq", "Anonymongo.Src.traverseMapPath_eq", "Anonymongo.Src.traverseMapPath_step", "Anonymongo.Src.traverseFuel_enough",
         "Anonymongo.Src.withinSearchUserDocument_eq", "Anonymongo.Src.RemoveElementAfter_eq", "Anonymongo.Src.RemoveElementsBeforeIncluding_eq"]
_HELP = ["Anonymongo.Src.isFieldNameValue_eq", "Anonymongo.Src.isRedactableFieldPatternInArray_eq", "Anonymongo.Src.isInSearchStage_eq", "Anonymongo.Src.augmentOp_eq"]
_LINE = ["Anonymongo.Src.RedactMongoLog_eq", "Anonymongo.Src.RedactMongoLog_eq_gen", "Anonymongo.Src.RedactMongoLog_err", "Anonymongo.Src.k12_eq",
         "Anonymongo.Src.k3_eq_obj", "Anonymongo.Src.attrFrom12_model", "Anonymongo.Src.Gen_ipPH"]
_CMD = ["Anonymongo.Src.redactCommand_eq", "Anonymongo.Src.blkInner", "Anonymongo.Src.blkLoopG", "Anonymongo.Src.opsLoop"]
_DISP = ["Anonymongo.Src.redactOperation_eq", "Anonymongo.Src.redactOperation_seq", "Anonymongo.Src.seqOp_map", "Anonymongo.Src.seqVal_eq"]
SRC_THEOREMS = {
    "C01": _LEAF + ["Anonymongo.Src.isInSearchStage_eq"] + _WALK + _DISP + _CMD + _LINE + ["Anonymongo.Src.C01_remote_src", "Anonymongo.Src.witness_callees"],
    "C04": _DISP + _CMD + _LINE + ["Anonymongo.Src.RedactMongoLog_returns", "Anonymongo.Src.C04_src", "Anonymongo.Src.witness_callees"],
    "C06": _LINE,
    "C02": _LEAF + _WALK,
    "C03": ["Anonymongo.Src.redactScalarValue_eq"] + _WALK,
    "C05": _LEAF + _WALK,
    "C07": _LEAF + _PATH + _HELP + _WALK + _DISP + _CMD + ["Anonymongo.Src.redactNamespace_eq"] + _LINE + ["Anonymongo.Src.C07_src", "Anonymongo.Src.C07_src_len", "Anonymongo.Src.parseObj_depth", "Anonymongo.Src.RedactMongoLog_returns", "Anonymongo.Src.witness_callees"],
    "C10": ["Anonymongo.Src.redactString_eq", "Anonymongo.Src.redactScalarValue_eq"] + _WALK,
    "C11": ["Anonymongo.Src.ReadKeyFromFile_eq", "Anonymongo.Src.ReadKeyFromFile_accepts", "Anonymongo.Src.WriteKeyToFile_eq",
            "Anonymongo.Src.WriteKeyToFile_model", "Anonymongo.Src.Write_then_Read", "Anonymongo.Src.FileExists_eq", "Anonymongo.Src.FileExists_model"],
    "C12": ["Anonymongo.Src.getOp_eq", "Anonymongo.Src.traverseMapPath_eq", "Anonymongo.Src.HashName_eq", "Anonymongo.Src.redactNamespaceFields_eq", "Anonymongo.Src.Gen_searchedFields",
            "Anonymongo.Src.redactNamespace_eq", "Anonymongo.Src.blkLoop", "Anonymongo.Src.blkInner"] + _LINE,
    "C13": ["Anonymongo.Src.HashName_eq", "Anonymongo.Src.trimLeftCutset_dollar"],
    "C14": _LEAF + ["Anonymongo.Src.isRedactableFieldPatternInArray_eq", "Anonymongo.Src.augmentOp_eq"] + _WALK,
    "C15": ["Anonymongo.Src.isFieldNameValue_eq", "Anonymongo.Src.HashName_eq"] + _WALK + _LINE,
    "C19": ["Anonymongo.Src.redactScalarValue_eq"] + _WALK,
}
SRC_NOTE = ("; SOURCE-LEVEL (tools/gotr, Generated/Src.lean, Props/Src/*): the leaf and lookup functions are TRANSLATED from the Go source on every run "
            "into Lean (do-notation over Option, none = panic) and proved to return - never panic, always terminate - exactly what the model's "
            "redactScalar / redactString / reMatchesAny / isEmail / getOp / traverse / augmentOp / selArr compute, for every key path (non-empty), value, "
            "table and flag setting; the theorems above about those model functions are therefore theorems about the current source text; "
            "the QUERY WALKER and the ARRAY WALKER too (Props/Src/Walk: redactQueryValues_eq, redactArrayValuesWithKey_eq - the translated mutual recursion "
            "of redactQueryValues / redactArrayValuesWithKey returns the model's Q / A; HashName_eq: the translated HashName is the model's hashName (SHA-256, Split / Join and %x being the model's); "
            "RedactMongoLog_eq (Props/Src/Line): the translated RedactMongoLog - emitted in continuation style, one Lean function per statement - returns, for every line the JSON reader "
            "accepts as an object without duplicate keys at any level, the model's redactLine (address rewrite, gate, field-name prefix test, the three command attributes, plan summary, "
            "attr.ns; every update of attr reaching the entry) and the reader's error for every other line; the JSON reader, the plan-summary rewriter and the stage walker are parameters; "
            "redactCommand_eq / redactNamespace_eq (Props/Src/Command): the translated redactCommand (the operation, the operation wrapped by explain, the operations of bulkWrite) "
            "and redactNamespace (the searched fields, those of the explained command, those of the nsInfo elements) - Go updates these nested documents through pointers; the "
            "translator writes each update back into the enclosing values - return the model's key-wise rebuild for every command document without duplicate keys at any level; "
            "redactOperation_eq (Props/Src/Dispatch): the translated redactOperation - one Lean function per top-level statement of the Go function, chained - "
            "returns, for every operation document without duplicate keys, the model's redactOperation: which keys open a zone (query, filter, sort, update, updates, deletes, "
            "arrayFilters, q, u, updateMods, document / documents under insert, pipeline), with which walker, every other key untouched; the stage walker is a parameter there; "
            "redactQueryValues / redactArrayValuesWithKey: as said for every document, at every nesting depth, given fuel beyond "
            "key-path length + twice the depth); the stage walker redactPipelineStage remains hand-modelled and corresponded; "
            "Props/Src/EndToEnd(Shape): C04_src, C01_remote_src (and, thorough tier, C03_src, C19_src) restate the line-level property theorems about the TRANSLATED "
            "RedactMongoLog with the regenerated tables - hypotheses: the untranslated callees (stage walker, plan-summary rewriter, JSON reader) behave as modelled; "
            "witness_callees shows the hypotheses satisfiable")
for _p, _ts in SRC_THEOREMS.items():
    _s = PROPS[_p]
    _s["theorems"] = _s["theorems"] + [t for t in dict.fromkeys(_ts) if t not in _s["theorems"]]
    _s["statement"] = _s.get("statement", "") + SRC_NOTE
    for _t in _ts:
        _m = "Anonymongo.Props.Src." + SRC_MODULES[_t]
        if _m not in _s.setdefault("extra_modules", []):
            _s["extra_modules"].append(_m)

# thorough tier only: the shape / idempotence theorems restated about the translated RedactMongoLog (Props/Src/EndToEndShape).  The quick tier
# of C03 and C19 does not depend on the refinement proofs of the dispatch functions, so that a rewrite of those leaves it alone.
PROPS["C03"]["thorough_theorems"] = ["Anonymongo.Src.C03_src", "Anonymongo.Src.C03_src_bytes", "Anonymongo.Src.parseObj_depth", "Anonymongo.Src.RedactMongoLog_returns", "Anonymongo.Src.witness_callees"]
PROPS["C03"]["thorough_modules"] = ["Anonymongo.Props.Src.EndToEndShape"]
PROPS["C19"]["thorough_theorems"] = ["Anonymongo.Src.C19_src", "Anonymongo.Src.C19_src_bytes", "Anonymongo.Src.parseObj_depth", "Anonymongo.Src.RedactMongoLog_returns", "Anonymongo.Src.witness_callees"]
PROPS["C19"]["thorough_modules"] = ["Anonymongo.Props.Src.EndToEndShape"]

# the two fixed regular expressions are the ones the model's recognisers were written for (e-mail class: C01, C05; plan summary: C15, C13)
for _p in ["C01", "C05", "C13", "C15"]:
    PROPS[_p]["theorems"] = PROPS[_p]["theorems"] + ["Anonymongo.Facts_regex"]
for _p, _s in PROPS.items():
    _em = [m for m in _s.get("extra_modules", []) if m != "Anonymongo.Props.SrcFacts"]
    for _t in _s["theorems"]:
        if _t in FACT_MODULES:
            _m = "Anonymongo.Props.Facts." + FACT_MODULES[_t]
            if _m not in _em:
                _em.append(_m)
    _s["extra_modules"] = _em
