"""Per-property registry: Lean module + property theorems, correspondence families the theorems depend on."""

ALLOWED_AXIOMS = {"propext", "Classical.choice", "Quot.sound"}

TRUSTED_BASE = [
    "Lean 4.33 kernel; axioms allowed: propext, Classical.choice, Quot.sound (audited by #print axioms on every listed theorem); no sorry/admit/native_decide/bv_decide/own axioms (grep over lean/)",
    "translator tools/gen_tables.py + harness 'tables' mode: Generated/Tables.lean is the runtime value of the Go tables in the binary built from /repo's working tree",
    "hand-written model lean/Anonymongo/Model/* tied to the Go control flow by differential execution only (tools/corr.py: same operations on the Go harness and on the Lean driver)",
    "Go standard library and third-party behaviour re-implemented in the model and only corresponded: encoding/json tokenizer+string escaper, bufio.Scanner, crypto/sha256, regexp (e-mail, IXSCAN), strings.*",
]

PROPS = {
    "C03": dict(
        module="Anonymongo.Props.C03",
        theorems=["Anonymongo.C03_walk", "Anonymongo.C03_line"],
        corr=["line", "other", "sweep", "arb", "text"],
        statement="forall parsed lines without duplicate sibling keys, forall configurations with --redactFieldNames off: shapeEq input (redactLine input)",
        partial="byte level (one physical line, valid JSON, parse . print round trip) is covered by the print/parse correspondence and the oracle, not yet by a theorem",
    ),
    "C18": dict(
        module="Anonymongo.Props.C18",
        theorems=["Anonymongo.Cli.C18_exact", "Anonymongo.Cli.C18_clean", "Anonymongo.Cli.C18_modes"],
        corr=[],
        statement="forall 2^13 presence/absence valuations (decided in the kernel): validate accepts iff Spec.wellDefined; a rejection has no effect but stderr+exit 1; an accepted job enters exactly one mode",
        partial="the transliteration of main.go's validation chain (Model/Cli.lean) is tied to the code by running the real CLI on the combinations (exhaustively in the thorough tier) and comparing with the model; cobra/pflag parsing and the OS are runtime",
        trusted=["spf13/cobra + pflag flag parsing, os.Stdin.Stat(), os.Create: exercised through the real binary, not modelled"],
    ),
}
