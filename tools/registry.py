"""Per-property registry: Lean module + property theorems, correspondence families the theorems depend on."""

ALLOWED_AXIOMS = {"propext", "Classical.choice", "Quot.sound"}

TRUSTED_BASE = [
    "Lean 4.33 kernel; axioms allowed: propext, Classical.choice, Quot.sound (audited by #print axioms on every listed theorem); no sorry/admit/native_decide/bv_decide/own axioms (grep over lean/)",
    "translator tools/gen_tables.py + harness 'tables' mode: Generated/Tables.lean is the runtime value of the Go tables in the binary built from /repo's working tree",
    "hand-written model lean/Anonymongo/Model/* tied to the Go control flow by differential execution only (tools/corr.py: same operations on the Go harness and on the Lean driver)",
    "Go standard library and third-party behaviour re-implemented in the model and only corresponded: encoding/json tokenizer+string escaper, bufio.Scanner, crypto/sha256, regexp (e-mail, IXSCAN), strings.*",
]

PROPS = {
    "C03": dict(
        module="Anonymongo.Props.C03",
        theorems=["Anonymongo.C03_walk", "Anonymongo.C03_line"],
        corr=["line", "other", "sweep", "arb", "text"],
        statement="forall parsed lines without duplicate sibling keys, forall configurations with --redactFieldNames off: shapeEq input (redactLine input)",
        partial="byte level (one physical line, valid JSON, parse . print round trip) is covered by the print/parse correspondence and the oracle, not yet by a theorem",
    ),
    "C01": dict(
        module="Anonymongo.Props.C01",
        theorems=["Anonymongo.C01_tables", "Anonymongo.C01_dispatch", "Anonymongo.C01_zone_entry", "Anonymongo.C01_replaced",
                  "Anonymongo.C01_replaced_enc", "Anonymongo.C01_numbers_bools", "Anonymongo.C01_remote", "Anonymongo.C02_walk"],
        corr=["line", "other", "sweep", "arb", "misc"],
        statement="(a) kernel-decided over the tables REGENERATED from the binary: every table entry that keeps values (Exempt / FieldName / Namespace / Pipeline) is on the whitelist of operational parameters written from the property text (Spec/Whitelist.lean); (b) every query-bearing command key opens a zone and all three command attributes are walked; (c) for every key path, stage mode and string: a string handed to redactScalarValue under a non-exempt path becomes one of five constants (placeholder mode) or its ciphertext / a constant (encrypt mode, also when Encrypt fails), numbers / booleans become the constant when their flag is on, attr.remote becomes the constant with --redactIPs; (e) the whole output is independent of the replaced literals (C02_walk)",
        partial="that a literal at a spec-sensitive position of an arbitrary tree always reaches redactScalarValue under a non-exempt path is proved per lookup (the exemption can only come from a whitelisted table entry: C01_tables) but the link 'document position -> key path handed to the lookup' is the walker model, tied to the code by correspondence, and checked end to end by the planted-token oracle (in-process and through the real CLI); selective mode is excluded by the property",
    ),
    "C02": dict(
        module="Anonymongo.Props.C02",
        theorems=["Anonymongo.C02_walk", "Anonymongo.C02_command", "Anonymongo.Ctx.run_rel", "Anonymongo.Ctx.run_scalar"],
        corr=["line", "sweep", "arb", "misc"],
        statement="placeholder mode, full-redaction mode (with or without --redactFieldNames / --redactNamespaces): from every walker state, two trees with the same keys, the same array lengths, equal kept parts and - at every leaf the walker hands to redactScalarValue under a non-exempt key path - leaves of the same lexical class (value under $date/$oid/$binary.base64, e-mail-shaped string, ordinary string, any two numbers with --redactNumbers, any two booleans with --redactBooleans) are redacted to the SAME tree; lifted to whole command documents (all zones)",
        partial="selective mode (--redactFieldsRegexp) is outside the theorem (the walker's states then depend on '$field' siblings and search path arguments): covered by the pair oracle only. Which positions are sensitive is C01. Byte identity of the printed lines follows because printing is a function of the tree (model) and is corresponded.",
    ),
    "C19": dict(
        module="Anonymongo.Props.C19",
        theorems=["Anonymongo.C19_walk", "Anonymongo.C19_line", "Anonymongo.C19_constants", "Anonymongo.redactScalar_idem"],
        corr=["line", "text", "sweep"],
        statement="placeholder mode, value-redaction flags only (any of --redactNumbers/--redactBooleans/--redactIPs, any --replacement that is not e-mail shaped, incl. '$...' and empty): redactLine (redactLine L) = redactLine L for every line without duplicate sibling keys; every placeholder classifies as a member of its own class (redactScalar_idem); the regenerated e-mail placeholder is e-mail shaped and the default replacement is not (kernel decide)",
        partial="tree level; 'parsing followed by serialisation is stable' (byte level) is the print/parse correspondence on every generated output plus the second pass through the real CLI; selective mode is covered by the oracle only",
    ),
    "C18": dict(
        module="Anonymongo.Props.C18",
        theorems=["Anonymongo.Cli.C18_exact", "Anonymongo.Cli.C18_clean", "Anonymongo.Cli.C18_modes"],
        corr=[],
        statement="forall 2^13 presence/absence valuations (decided in the kernel): validate accepts iff Spec.wellDefined; a rejection has no effect but stderr+exit 1; an accepted job enters exactly one mode",
        partial="the transliteration of main.go's validation chain (Model/Cli.lean) is tied to the code by running the real CLI on the combinations (exhaustively in the thorough tier) and comparing with the model; cobra/pflag parsing and the OS are runtime",
        trusted=["spf13/cobra + pflag flag parsing, os.Stdin.Stat(), os.Create: exercised through the real binary, not modelled"],
    ),
    "C13": dict(
        module="Anonymongo.Props.C13",
        theorems=["Anonymongo.C13_form", "Anonymongo.C13_depth", "Anonymongo.C13_dollar", "Anonymongo.C13_componentwise", "Anonymongo.C13_inj_mod", "Anonymongo.C13_pure"],
        corr=["misc"],
        statement="forall names and replacement texts: every block is <replacement>_<16 lower-case hex>; one block per dotted component; leading '$' irrelevant; P(a.b) = P(a).P(b); equal pseudonyms iff equal 8-byte SHA-256 prefixes",
        partial="'different components always receive different pseudonyms' is false for all strings (2^64 outputs): proved up to a collision of truncated SHA-256 (C13_inj_mod); distinctness over all names of length <= 3 over 40 symbols is ENUMERATED on the implementation, not proved. SHA-256 in the model is corresponded with crypto/sha256, not verified. Stability across processes is sampled (two processes, permuted call orders).",
    ),
    "C06": dict(
        module="Anonymongo.Props.C06",
        theorems=["Anonymongo.C06_local", "Anonymongo.C06_skip", "Anonymongo.C07_others", "Anonymongo.C06_faultfree", "Anonymongo.C06_crlf", "Anonymongo.C06_final"],
        corr=["stream", "line", "text"],
        statement="for an arbitrary line function: processLines (A++B) = processLines A ++ processLines B; skipped lines contribute nothing; a fault-free run of the scan loop emits exactly the order-preserving map over the scanned lines; CRLF and LF texts of the same lines scan to the same tokens; the final newline is optional",
        partial="channel independence (file / .gz / stdin x stdout / --outputFile, progress bar) is runtime behaviour of os, gzip and the terminal: established by whole-program runs compared byte for byte with the per-line results, not by a theorem; 'is a JSON object' is the model parser, corresponded with encoding/json",
        trusted=["bufio.Scanner / ScanLines semantics (64 KiB token limit, CR dropping, final unterminated token) are re-implemented in Model/Stream.lean and corresponded"],
    ),
    "C07": dict(
        module="Anonymongo.Props.C06",
        theorems=["Anonymongo.C07_others", "Anonymongo.C07_long", "Anonymongo.C06_faultfree", "Anonymongo.C03_line"],
        extra_modules=["Anonymongo.Props.C03"],
        corr=["text", "line", "stream", "sweep", "arb"],
        statement="the model's line function is total by construction (every Go type assertion / index is a checked match in the model); one line yields at most one output line and leaves the others untouched (C07_others); the scan stops with an error exactly at the first line longer than 65535 bytes and delivers the lines strictly before it (C07_long)",
        partial="that the Go code does not panic where the model answers cannot be proved about Go: it is the correspondence (panics are recovered by the harness and reported as a disagreement) on hostile inputs: every JSON token class, truncations, byte flips, invalid UTF-8, wrong value kinds under every table key and extended-JSON wrapper, nesting depth 20000",
    ),
    "C08": dict(
        module="Anonymongo.Props.C06",
        theorems=["Anonymongo.C08_ok_iff", "Anonymongo.C08_write_prefix", "Anonymongo.C08_read_prefix", "Anonymongo.emitAll_prefix"],
        corr=["stream"],
        statement="for every input, read-fault position and failing-write index: the result is ok iff no fault was reached and no line is over-long; bytes written before a failing write are a whole-line prefix of the fault-free output; a read fault at a line boundary yields a prefix and an error",
        partial="C08_read_prefix is stated for cuts at line boundaries; a cut inside a line hands the partial tail to the parser, which rejects every proper prefix of a JSON object since the fix of the truncated-object defect (corresponded, sampled at every kind of offset) - the general statement for mid-line cuts is not yet a theorem. Real devices (/dev/full, closed pipe) and gzip damage are runtime: whole-program runs",
    ),
    "C04": dict(
        module="Anonymongo.Props.C04",
        theorems=["Anonymongo.C04_top_frame", "Anonymongo.C04_attr_frame", "Anonymongo.C04_flags", "Anonymongo.C04_ungated", "Anonymongo.C04_ungated_noflags",
                  "Anonymongo.C04_cmd_frame", "Anonymongo.C04_kept_params", "Anonymongo.C04_limit_skip", "Anonymongo.C04_numtext", "Anonymongo.C03_line"],
        extra_modules=["Anonymongo.Props.C03"],
        corr=["line", "other", "text", "sweep"],
        statement="for every line, flag set and plan-summary rewriter: top-level members other than attr, attributes other than the three command documents / remote / ns / planSummary, and members of a command document other than the zone keys (and string namespace fields under --redactNamespaces) are emitted unchanged, keys and order preserved; remote changes only with --redactIPs, ns only with --redactNamespaces, planSummary only with a --redactFieldNames path; on ungated lines nothing but remote / ns changes; $limit/$skip are exempt under every key path and the listed top-level stage parameters are exempt (kernel decide over the regenerated tables); numbers print as their literal text; keys inside zones: C03_line",
        partial="string contents / number text surviving the parser and the printer (escapes, 64-bit integers, exponents) is the byte-level model, corresponded on exotic literals and checked by the exact-tree oracle; a $limit/$skip argument that is a DOCUMENT (canonical extended JSON {$numberLong}) inside a nested $lookup/$unionWith pipeline is walked by the query walker, not copied (the theorem states the scalar case there)",
    ),
    "C05": dict(
        module="Anonymongo.Props.C05",
        theorems=["Anonymongo.C05_valid", "Anonymongo.C05_class", "Anonymongo.C05_decision_value_free"],
        corr=["misc", "sweep", "line"],
        statement="the regenerated constants are a valid ISO instant / 24 hex digits / canonical base64 / e-mail shaped / 0 / false (kernel decide over Generated.tables); for every key path, value, mode and flag set in placeholder mode redactScalarValue returns the value unchanged for path reasons only, or exactly the placeholder of the value's class (date/oid/base64/subType/e-mail/string/number/bool/null)",
        partial="that every zone slot of the walkers reaches redactScalarValue with the right parent / grand-parent keys is the leaf-by-leaf oracle and the table sweep (this is where the slice-aliasing defect lived); survival of an arbitrary --replacement through serialisation is covered by the print/parse correspondence, not yet by a theorem",
    ),
    "C09": dict(
        module="Anonymongo.Props.C09",
        theorems=["Anonymongo.C09_roundtrip", "Anonymongo.C09_tamper", "Anonymongo.C10_inj"],
        corr=["line"],
        statement="for ANY deterministic AEAD and base64 codec satisfying dec(enc p) = p and 'accepted => genuine': the leaf emitted for s decrypts through the decrypt command to exactly utf8(s); anything the decrypt command accepts is the genuine ciphertext of what it prints",
        partial="the AEAD laws are assumptions about Tink AES-SIV (listed in the trusted base), not proved; 'a different key / an altered ciphertext fails' is a 2^-128 statement, sampled end to end through the real CLI (bit flips, truncations, extensions, wrong key)",
        trusted=["tink-go AES-SIV: dec(k, enc(k, p)) = p and decryption accepts only genuine ciphertexts; encoding/base64 round trip; os.ReadFile of the key file"],
    ),
    "C10": dict(
        module="Anonymongo.Props.C09",
        theorems=["Anonymongo.C10_det", "Anonymongo.C10_inj", "Anonymongo.C10_closed", "Anonymongo.C10_bad_key", "Anonymongo.C10_equiv_leaf"],
        corr=["line", "misc", "sweep"],
        statement="the ciphertext leaf is a function of (key, plaintext); injective; with an encryption function that fails the leaf is the placeholder (never the plaintext); at every leaf encrypt mode and placeholder mode take the same decision and differ only where placeholder mode replaces a string",
        partial="C10_equiv_leaf is the leaf-level statement; its lift to whole lines (same lines, same shape) rests on C03 for both modes plus the leaf-wise oracle over grammar lines; determinism across separate processes is a property of Tink and key loading: sampled",
        trusted=["tink-go AES-SIV determinism across processes"],
    ),
}
