#!/bin/bash
# development helper: run seeded changes against a scratch copy of /verif and a scratch worktree of /repo
# usage: [VS=/tmp/vs SR=/tmp/seedrepo SEED_PROPS=C01,C02] seedbg.sh <seed-id>... ; results in $VS/seeded/<id>/meta.json and on stdout
set -e
VS=${VS:-/tmp/vs}; SR=${SR:-/tmp/seedrepo}
rsync -a --delete --exclude .git --exclude replays /verif/ $VS/
if [ ! -d $SR ]; then git -C /repo worktree add --detach $SR HEAD >/dev/null; fi
git -C $SR checkout -q --detach $(git -C /repo rev-parse HEAD); git -C $SR checkout -- .
export VERIF_REPO=$SR SEED_REPO=$SR
cd $VS
for s in "$@"; do python3 tools/seedtest.py run $s ${SEED_PROPS:+--props $SEED_PROPS} ${SEED_ARGS} 2>&1 | tail -${SEED_TAIL:-3}; done
