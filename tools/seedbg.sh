#!/bin/bash
# development helper: run seeded changes against a scratch copy of /verif and a scratch worktree of /repo
# usage: seedbg.sh <seed-id>... ; results in /tmp/vs/seeded/<id>/meta.json and on stdout
set -e
rsync -a --delete --exclude .git --exclude replays /verif/ /tmp/vs/
if [ ! -d /tmp/seedrepo ]; then git -C /repo worktree add --detach /tmp/seedrepo HEAD >/dev/null; fi
git -C /tmp/seedrepo checkout -q --detach $(git -C /repo rev-parse HEAD); git -C /tmp/seedrepo checkout -- .
export VERIF_REPO=/tmp/seedrepo SEED_REPO=/tmp/seedrepo
cd /tmp/vs
for s in "$@"; do python3 tools/seedtest.py run $s ${SEED_ARGS} 2>&1 | tail -3; done
