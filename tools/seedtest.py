#!/usr/bin/env python3
"""Seeded-change bookkeeping.
  seedtest.py confirm <src-dir> <seed-id> <property>   confirm a candidate change in a scratch worktree:
        tests pass with it, demo fails with it, demo passes without it -> copy to /verif/seeded/<seed-id>/
  seedtest.py run <seed-id> [--tier quick] [--props C01,C02]   apply /verif/seeded/<id>/patch.diff to /repo, run the checks, undo
  seedtest.py runall [--tier quick]
Scratch worktrees live under /tmp and are removed afterwards."""
import json, os, shutil, subprocess, sys, time

VERIF = os.path.dirname(os.path.dirname(os.path.abspath(__file__)))
REPO = os.environ.get("SEED_REPO", "/repo")
ENV = dict(os.environ, GOFLAGS="-mod=mod", GOPROXY="off")
ENV.pop("GOTOOLCHAIN", None); ENV.pop("GOSUMDB", None)


def sh(cmd, cwd=None, timeout=1800, env=ENV, inp=None):
    p = subprocess.run(cmd, cwd=cwd, capture_output=True, timeout=timeout, env=env, shell=isinstance(cmd, str), input=inp.encode() if isinstance(inp, str) else inp)
    return p.returncode, (p.stdout + p.stderr).decode('utf-8', 'replace')


def run_demo(wt, src, demo):
    if demo.endswith(".go"):
        shutil.copy(os.path.join(src, demo), os.path.join(wt, "src", "zz_demo_test.go"))
        rc, out = sh("go test -vet=off -count=1 -run 'TestDemo' ./src", cwd=wt)
        os.remove(os.path.join(wt, "src", "zz_demo_test.go"))
        return rc, out
    os.makedirs(os.path.join(wt, "_bin"), exist_ok=True)
    rc, out = sh("go build -o _bin/anonymongo ./src", cwd=wt)
    if rc != 0:
        return 99, out
    with open("/dev/null") as dn:
        p = subprocess.run(["bash", os.path.join(src, demo), os.path.join(wt, "_bin", "anonymongo")], cwd=wt, capture_output=True, env=ENV, stdin=dn, timeout=900)
    return p.returncode, (p.stdout + p.stderr).decode("utf-8", "replace")


def confirm(src, sid, prop):
    notes = json.load(open(os.path.join(src, "notes.json")))
    demo = notes.get("demo") or ("demo_test.go" if os.path.exists(os.path.join(src, "demo_test.go")) else "demo.sh")
    wt = "/tmp/seedwt-" + sid
    sh(["git", "-C", REPO, "worktree", "remove", "--force", wt])
    rc, out = sh(["git", "-C", REPO, "worktree", "add", "--detach", wt, "HEAD"])
    assert rc == 0, out
    res = {}
    try:
        rc0, o0 = run_demo(wt, src, demo)
        res["demo_without_change"] = {"rc": rc0, "tail": o0[-400:]}
        rc, out = sh(["git", "apply", os.path.join(src, "patch.diff")], cwd=wt)
        res["apply"] = rc
        if rc != 0:
            res["apply_log"] = out[-400:]
        rc, out = sh("go build -o /dev/null ./src && go test -vet=off -count=1 ./...", cwd=wt)
        res["suite_with_change"] = {"rc": rc, "tail": out[-300:]}
        rc1, o1 = run_demo(wt, src, demo)
        res["demo_with_change"] = {"rc": rc1, "tail": o1[-600:]}
    finally:
        sh(["git", "-C", REPO, "worktree", "remove", "--force", wt])
        shutil.rmtree(wt, ignore_errors=True)
    ok = res.get("apply") == 0 and res["suite_with_change"]["rc"] == 0 and res["demo_without_change"]["rc"] == 0 and res["demo_with_change"]["rc"] not in (0, 99)
    res["confirmed"] = ok
    print(sid, "CONFIRMED" if ok else "REJECTED", json.dumps({k: (v["rc"] if isinstance(v, dict) else v) for k, v in res.items()}))
    if ok:
        dst = os.path.join(VERIF, "seeded", sid)
        os.makedirs(dst, exist_ok=True)
        shutil.copy(os.path.join(src, "patch.diff"), dst)
        shutil.copy(os.path.join(src, demo), dst)
        meta = {"id": sid, "property": prop, "what": notes.get("what"), "needs": notes.get("needs"), "files": notes.get("files"), "demo": demo,
                "confirmed_by": "tools/seedtest.py confirm (fresh worktree of /repo HEAD: demo passes; patch applied: go build + unedited test suite pass, demo fails)",
                "confirmation": res, "checks": {}}
        json.dump(meta, open(os.path.join(dst, "meta.json"), "w"), indent=1)
    return ok


def run(sid, tier="quick", props=None):
    d = os.path.join(VERIF, "seeded", sid)
    meta = json.load(open(os.path.join(d, "meta.json")))
    props = props or [meta["property"]]
    rc, out = sh(["git", "-C", REPO, "status", "--porcelain", "--untracked-files=no"])
    dirty = [l for l in out.splitlines() if l.strip() and not l.strip().endswith("go.mod")]
    assert not dirty, "/repo not clean: " + out
    rc, out = sh(["git", "-C", REPO, "apply", os.path.join(d, "patch.diff")])
    assert rc == 0, out
    results = {}
    try:
        for p in props:
            t0 = time.time()
            rc, out = sh([os.path.join(VERIF, "check"), p, "--tier", tier], cwd=VERIF, timeout=7200)
            lines = [l for l in out.splitlines() if l.startswith("VIOLATION") or l.startswith("KNOWN-FINDING")]
            results[p] = {"rc": rc, "tier": tier, "lines": lines[:4], "wall_s": round(time.time() - t0, 1)}
            print(sid, p, "rc=%d" % rc, (lines[0] if lines else out.strip().splitlines()[-1][:200] if out.strip() else ""))
    finally:
        sh(["git", "-C", REPO, "checkout", "--", "."])
    meta.setdefault("checks", {}).update(results)
    meta["detected_by"] = sorted(p for p, r in meta["checks"].items() if r["rc"] == 1)
    json.dump(meta, open(os.path.join(d, "meta.json"), "w"), indent=1)
    return results


if __name__ == "__main__":
    a = sys.argv[1:]
    if a[0] == "confirm":
        sys.exit(0 if confirm(a[1], a[2], a[3]) else 1)
    tier = a[a.index("--tier") + 1] if "--tier" in a else "quick"
    props = a[a.index("--props") + 1].split(",") if "--props" in a else None
    if a[0] == "run":
        run(a[1], tier, props)
    elif a[0] == "runall":
        for sid in sorted(os.listdir(os.path.join(VERIF, "seeded"))):
            if os.path.exists(os.path.join(VERIF, "seeded", sid, "meta.json")):
                try:
                    run(sid, tier, props)
                except AssertionError as e:
                    print(sid, "SKIPPED", e)
