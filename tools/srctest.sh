#!/bin/bash
# usage: srctest.sh <patch>  — apply to a scratch worktree, translate, build Props/Src in a scratch copy of the lean project
set -e
P=$1
WT=/tmp/srcwt; LP=/tmp/srclean
git -C /repo worktree remove --force $WT >/dev/null 2>&1 || true
git -C /repo worktree add --detach $WT HEAD >/dev/null 2>&1
git -C $WT apply $P
rsync -a --delete /verif/lean/ $LP/
/verif/build/gotr $WT/src > /tmp/srcout.json
python3 - <<'PY'
import json
d=json.load(open('/tmp/srcout.json'))
print("failed:", d["failed"])
src=open('/verif/lean/Anonymongo/Generated/Src.lean').read()
head=src[:src.index("def s_")]
import re
head=re.sub(r'def translated : List String := \[.*\]', 'def translated : List String := [' + ", ".join('"%s"'%f for f in d["ok"]) + ']', head)
open('/tmp/srclean/Anonymongo/Generated/Src.lean','w').write(head+d["lean"]+"end Anonymongo.Src\n")
PY
cd $LP && lake build Anonymongo.Props.Src.Leaf Anonymongo.Props.Src.PathFns Anonymongo.Props.Src.Key Anonymongo.Props.Src.Scalar Anonymongo.Props.Src.Helpers Anonymongo.Props.Src.Walk Anonymongo.Props.Src.Hash Anonymongo.Props.Src.Dispatch Anonymongo.Props.Src.Command Anonymongo.Props.Src.Line 2>&1 | grep "error\|✖\|Build completed" | head -12
git -C /repo worktree remove --force $WT
