#!/bin/bash
# unchanged-tree sweep: all 20 quick checks under several seeds
./setup.sh >/dev/null 2>&1
for sd in ${SWEEP_SEEDS:-2 3 5}; do for p in ${SWEEP_PROPS:-C01 C02 C03 C04 C05 C06 C07 C08 C09 C10 C11 C12 C13 C14 C15 C16 C17 C18 C19 C20}; do VERIF_DEEP=${SWEEP_DEEP:-} VERIF_SEED=$sd ./check $p --tier quick 2>&1 | tail -1 | cut -c1-160 | sed "s/^/seed=$sd /"; done; done
