#!/usr/bin/env python3
"""validate MANIFEST.json and evidence/*.json against the schemas (run with python3-vt: needs jsonschema)"""
import json, glob, sys, jsonschema
ok = True
m = json.load(open('/verif/MANIFEST.json'))
jsonschema.validate(m, json.load(open('/root/.vp/MANIFEST.schema.json')))
print("MANIFEST ok:", len(m["checks"]), "checks")
sch = json.load(open('/root/.vp/EVIDENCE.schema.json'))
for f in sorted(glob.glob('/verif/evidence/*.json')):
    try:
        jsonschema.validate(json.load(open(f)), sch)
        print("ok", f)
    except Exception as e:
        ok = False
        print("INVALID", f, str(e)[:300])
sys.exit(0 if ok else 1)
