"""Shared library for the anonymongo verification machinery (python3, std-lib only).

Trees:  None | bool | Num(str) | str | list | Obj(list of (key, value))
T-format (what the Go harness and the Lean driver speak): space separated tokens
   n t f  #<hex-literal>  s<hex-utf8>  [ ... ]  { s<key> value ... }
"""
import binascii, hashlib, json, os, subprocess, sys, time, fcntl

VERIF = os.path.dirname(os.path.dirname(os.path.abspath(__file__)))
REPO = os.environ.get("VERIF_REPO", "/repo")
BUILD = os.path.join(VERIF, "build")
GOENV = dict(os.environ, GOFLAGS="-mod=mod", GOPROXY="off")
GOENV.pop("GOTOOLCHAIN", None)
GOENV.pop("GOSUMDB", None)


GO_SPACE = "\t\n\v\f\r \u0085\u00a0\u1680\u2000\u2001\u2002\u2003\u2004\u2005\u2006\u2007\u2008\u2009\u200a\u2028\u2029\u202f\u205f\u3000"


def go_trim(s):
    """strings.TrimSpace: Go's unicode.IsSpace, which (unlike str.strip) does not include U+001C..U+001F"""
    return s.strip(GO_SPACE)


def go_re(rx):
    """compile a regexp of the common RE2 / Python subset with Go's semantics for `$` (end of text only,
    not before a final newline); the generators only use `$` as the end anchor"""
    import re
    return re.compile(rx.replace("$", r"\Z"))


class Num(str):
    """JSON number kept as its literal text."""
    __slots__ = ()

    def __repr__(self):
        return "Num(%s)" % str.__repr__(self)

    def __eq__(self, o):
        return isinstance(o, Num) and str.__eq__(self, o)

    def __ne__(self, o):
        return not self.__eq__(o)

    __hash__ = str.__hash__


class Obj(list):
    """JSON object as an ordered list of (key, value) pairs."""
    __slots__ = ()

    def __repr__(self):
        return "Obj(%s)" % list.__repr__(self)

    def __eq__(self, o):
        return isinstance(o, Obj) and list.__eq__(self, o)

    def __ne__(self, o):
        return not self.__eq__(o)

    def get(self, k, d=None):
        for kk, v in self:
            if kk == k:
                return v
        return d

    def has(self, k):
        return any(kk == k for kk, _ in self)

    def set(self, k, v):
        for i, (kk, _) in enumerate(self):
            if kk == k:
                self[i] = (k, v)
                return
        self.append((k, v))

    def keys(self):
        return [k for k, _ in self]


def hx(s):
    if isinstance(s, str):
        s = s.encode("utf-8", "surrogatepass")
    return binascii.hexlify(s).decode()


def unhx(h):
    return binascii.unhexlify(h).decode("utf-8", "replace")


def unhxb(h):
    return binascii.unhexlify(h)


def enc(t):
    out = []
    _enc(t, out)
    return " ".join(out)


def _enc(t, out):
    if t is None:
        out.append("n")
    elif t is True:
        out.append("t")
    elif t is False:
        out.append("f")
    elif isinstance(t, Num):
        out.append("#" + hx(str(t)))
    elif isinstance(t, str):
        out.append("s" + hx(t))
    elif isinstance(t, Obj):
        out.append("{")
        for k, v in t:
            out.append("s" + hx(k))
            _enc(v, out)
        out.append("}")
    elif isinstance(t, list):
        out.append("[")
        for e in t:
            _enc(e, out)
        out.append("]")
    else:
        raise TypeError(repr(t))


def dec(s):
    toks = s.split()
    pos = [0]
    v = _dec(toks, pos)
    if pos[0] != len(toks):
        raise ValueError("trailing tokens in " + s[:80])
    return v


def _dec(toks, pos):
    t = toks[pos[0]]
    pos[0] += 1
    c = t[0]
    if c == "n":
        return None
    if c == "t":
        return True
    if c == "f":
        return False
    if c == "#":
        return Num(unhx(t[1:]))
    if c == "s":
        return unhx(t[1:])
    if c == "[":
        a = []
        while toks[pos[0]] != "]":
            a.append(_dec(toks, pos))
        pos[0] += 1
        return a
    if c == "{":
        o = Obj()
        while toks[pos[0]] != "}":
            k = unhx(toks[pos[0]][1:])
            pos[0] += 1
            o.append((k, _dec(toks, pos)))
        pos[0] += 1
        return o
    raise ValueError("bad token " + t)


def to_json(t):
    """Plain compact JSON text of a tree (own serialiser; keeps Num literal text)."""
    if t is None:
        return "null"
    if t is True:
        return "true"
    if t is False:
        return "false"
    if isinstance(t, Num):
        return str(t)
    if isinstance(t, str):
        return json.dumps(t, ensure_ascii=False)
    if isinstance(t, Obj):
        return "{" + ",".join(json.dumps(k, ensure_ascii=False) + ":" + to_json(v) for k, v in t) + "}"
    if isinstance(t, list):
        return "[" + ",".join(to_json(e) for e in t) + "]"
    raise TypeError(repr(t))


def _spell_str(x, rng, mode):
    """a JSON string literal for x in which some characters are written as escapes (same decoded value)"""
    out = ['"']
    for ch in x:
        o = ord(ch)
        plain = json.dumps(ch, ensure_ascii=False)[1:-1]
        esc = None
        if o > 0xFFFF:
            v = o - 0x10000
            esc = "\\u%04x\\u%04x" % (0xD800 + (v >> 10), 0xDC00 + (v & 0x3FF))
        else:
            esc = "\\u%04X" % o if (o & 1) else "\\u%04x" % o
        if mode == "at":
            use = ch in "@.$"
        elif mode == "all":
            use = True
        elif mode == "slash":
            use = False
            if ch == "/":
                plain = "\\/"
        else:
            use = rng.chance(1, 6)
        out.append(esc if use else plain)
    out.append('"')
    return "".join(out)


def to_json_spelled(t, rng, mode="some", ws=False):
    """the same tree as to_json(t), spelled differently: characters of keys / strings as \\uXXXX escapes (mode: some | at | all | slash),
    optional insignificant white space between tokens.  A decoder must not see any difference."""
    sp = (lambda: rng.choice(["", " ", "  ", "\t"])) if ws else (lambda: "")
    def go(v):
        if v is None or v is True or v is False or isinstance(v, Num):
            return to_json(v)
        if isinstance(v, str):
            return _spell_str(v, rng, mode)
        if isinstance(v, Obj):
            return "{" + sp() + ",".join(sp() + _spell_str(k, rng, mode) + sp() + ":" + sp() + go(x) + sp() for k, x in v) + "}"
        if isinstance(v, list):
            return "[" + sp() + ",".join(sp() + go(e) + sp() for e in v) + "]"
        raise TypeError(repr(v))
    return go(t)


def parse_json(text):
    """Independent ordered parser (python json, strict): duplicate keys kept, numbers as text."""
    def bad(x):
        raise ValueError("non-JSON constant " + x)
    return json.loads(text, object_pairs_hook=lambda ps: Obj(ps), parse_float=Num, parse_int=Num,
                      parse_constant=bad)


_JTOK = None


def json_wellformed(text):
    """iterative (depth-unbounded) check that text is exactly one JSON value"""
    import re
    global _JTOK
    if _JTOK is None:
        _JTOK = re.compile(r'[ \t\r\n]*(?:([{}\[\],:])|("(?:[^"\\\x00-\x1f]|\\["\\/bfnrt]|\\u[0-9a-fA-F]{4})*")|(-?(?:0|[1-9][0-9]*)(?:\.[0-9]+)?(?:[eE][+-]?[0-9]+)?)|(true|false|null))')
    pos, n = 0, len(text)
    stack = []          # 'o' object, 'a' array
    state = "value"     # value | key_or_end | colon | comma_or_end | elem_or_end | done
    while True:
        m = _JTOK.match(text, pos)
        if not m:
            break
        pos = m.end()
        p, st, num, lit = m.groups()
        is_val = st is not None or num is not None or lit is not None
        if state in ("value", "elem_or_end") and (is_val or p in ("{", "[")) or (state == "elem_or_end" and p == "]"):
            if p == "]":
                stack.pop()
            elif p == "{":
                stack.append("o"); state = "key_or_end"; continue
            elif p == "[":
                stack.append("a"); state = "elem_or_end"; continue
            state = "comma_or_end" if stack else "done"
        elif state == "key_or_end" and (st is not None or p == "}"):
            if p == "}":
                stack.pop(); state = "comma_or_end" if stack else "done"
            else:
                state = "colon"
        elif state == "key" and st is not None:
            state = "colon"
        elif state == "colon" and p == ":":
            state = "value"
        elif state == "comma_or_end" and p is not None and stack:
            if p == ",":
                state = "key" if stack[-1] == "o" else "value"
            elif (p == "}" and stack[-1] == "o") or (p == "]" and stack[-1] == "a"):
                stack.pop(); state = "comma_or_end" if stack else "done"
            else:
                return False
        else:
            return False
        if state == "done":
            break
    return state == "done" and text[pos:].strip(" \t\r\n") == ""


def dedupe(t):
    """OrderedMap.Set semantics for duplicate sibling keys: the last value wins, at the first position"""
    if isinstance(t, Obj):
        o = Obj()
        for k, v in t:
            o.set(k, dedupe(v))
        return o
    if isinstance(t, list):
        return [dedupe(v) for v in t]
    return t


def kind(t):
    if t is None:
        return "null"
    if isinstance(t, bool):
        return "bool"
    if isinstance(t, Num):
        return "num"
    if isinstance(t, str):
        return "str"
    if isinstance(t, Obj):
        return "obj"
    if isinstance(t, list):
        return "arr"
    raise TypeError(repr(t))


def leaves(t, path=()):
    """Yield (path, leaf) for scalar leaves; path items are keys (str) or indices (int)."""
    if isinstance(t, Obj):
        for k, v in t:
            yield from leaves(v, path + (k,))
    elif isinstance(t, list):
        for i, v in enumerate(t):
            yield from leaves(v, path + (i,))
    else:
        yield path, t


def get_path(t, path):
    for p in path:
        if isinstance(p, int):
            if not isinstance(t, list) or isinstance(t, Obj) or p >= len(t):
                return KeyError
            t = t[p]
        else:
            if not isinstance(t, Obj) or not t.has(p):
                return KeyError
            t = t.get(p)
    return t


def shape_diff(a, b, path=()):
    """First shape difference between trees a and b (keys+order, lengths, leaf kinds) or None."""
    ka, kb = kind(a), kind(b)
    if ka != kb:
        return (path, "kind %s -> %s" % (ka, kb))
    if ka == "obj":
        if a.keys() != b.keys():
            return (path, "keys %r -> %r" % (a.keys(), b.keys()))
        for (k, va), (_, vb) in zip(a, b):
            d = shape_diff(va, vb, path + (k,))
            if d:
                return d
    elif ka == "arr":
        if len(a) != len(b):
            return (path, "len %d -> %d" % (len(a), len(b)))
        for i, (va, vb) in enumerate(zip(a, b)):
            d = shape_diff(va, vb, path + (i,))
            if d:
                return d
    return None


class Cfg:
    """Redaction configuration (mirrors the CLI flags / option globals)."""

    def __init__(self, repl="REDACTED", n=False, b=False, i=False, w=False, eager=(), re=None, enc=0):
        self.repl, self.n, self.b, self.i, self.w = repl, n, b, i, w
        self.eager, self.re, self.enc = tuple(eager), re, enc

    def s(self):
        parts = ["r=" + hx(self.repl), "n=%d" % self.n, "b=%d" % self.b, "i=%d" % self.i, "w=%d" % self.w]
        parts.append("e=" + ":".join("x" + hx(p) for p in self.eager))
        parts.append("z=" + (hx(self.re) if self.re else ""))
        parts.append("y=%d" % self.enc)
        return ";".join(parts)

    def cli(self):
        a = []
        if self.repl != "REDACTED":
            a += ["--replacement", self.repl]
        if self.n:
            a.append("--redactNumbers")
        if self.b:
            a.append("--redactBooleans")
        if self.i:
            a.append("--redactIPs")
        if self.w:
            a.append("--redactNamespaces")
        for p in self.eager:
            a += ["--redactFieldNames", p]
        if self.re:
            a += ["--redactFieldsRegexp", self.re]
        return a

    def __repr__(self):
        return "Cfg(%s)" % self.s()


# ------------------------------------------------------------------ build

def src_file_hashes():
    """sha256 of every non-test Go source file of the repository (used only to SCALE the search: when the source differs from the
    recorded baseline the checks run their deep generators at once; never a verdict)"""
    out = {}
    d = os.path.join(REPO, "src")
    for fn in sorted(os.listdir(d)):
        if fn.endswith(".go") and not fn.endswith("_test.go") and not fn.startswith("zz_verif"):
            out[fn] = hashlib.sha256(open(os.path.join(d, fn), "rb").read()).hexdigest()
    return out


def src_changed_files():
    bf = os.path.join(VERIF, "baseline_src.json")
    try:
        base = json.load(open(bf))
    except Exception:
        return []
    cur = src_file_hashes()
    return sorted(k for k in set(base) | set(cur) if base.get(k) != cur.get(k))


def src_fingerprint():
    h = hashlib.sha256()
    for d in (os.path.join(REPO, "src"), os.path.join(VERIF, "harness")):
        for fn in sorted(os.listdir(d)):
            if fn.endswith(".go") or fn.endswith(".json"):
                h.update(fn.encode())
                with open(os.path.join(d, fn), "rb") as f:
                    h.update(f.read())
    for fn in ("go.mod", "go.sum"):
        with open(os.path.join(REPO, fn), "rb") as f:
            h.update(f.read())
    return h.hexdigest()


class Lock:
    def __init__(self, name):
        os.makedirs(BUILD, exist_ok=True)
        self.path = os.path.join(BUILD, name + ".lock")

    def __enter__(self):
        self.f = open(self.path, "w")
        fcntl.flock(self.f, fcntl.LOCK_EX)
        return self

    def __exit__(self, *a):
        fcntl.flock(self.f, fcntl.LOCK_UN)
        self.f.close()


def harness_bin():
    return os.path.join(BUILD, "anonymongo_verif")


def build_harness(force=False):
    """(Re)build the real program + harness from /repo's working tree. Returns (ok, log)."""
    with Lock("gobuild"):
        fp = src_fingerprint()
        stamp = os.path.join(BUILD, "anonymongo_verif.stamp")
        if not force and os.path.exists(harness_bin()) and os.path.exists(stamp) and open(stamp).read() == fp:
            return True, "cached"
        overlay = {"Replace": {
            os.path.join(REPO, "src", "zz_verif_harness.go"): os.path.join(VERIF, "harness", "harness.go"),
            os.path.join(REPO, "src", "zz_verif_atlas.go"): os.path.join(VERIF, "harness", "atlas.go"),
        }}
        ov = os.path.join(BUILD, "overlay.json")
        with open(ov, "w") as f:
            json.dump(overlay, f)
        if os.path.exists(harness_bin()):
            os.remove(harness_bin())
        p = subprocess.run(["go", "build", "-tags", "verif", "-overlay", ov, "-o", harness_bin(), "./src"],
                           cwd=REPO, env=GOENV, capture_output=True, text=True)
        if p.returncode != 0:
            return False, p.stdout + p.stderr
        with open(stamp, "w") as f:
            f.write(fp)
        return True, "built"


def go_exec(ops, timeout=600):
    """ops: list of (id, [fields...]); returns dict id -> result string. Crashes are isolated."""
    if not ops:
        return {}
    payload = "".join("\t".join([str(i)] + list(f)) + "\n" for i, f in ops)
    env = dict(os.environ, VERIF_HARNESS="exec", GOMEMLIMIT="4GiB")
    p = subprocess.run([harness_bin()], input=payload.encode(), capture_output=True, env=env, timeout=timeout)
    res = {}
    for ln in p.stdout.decode("utf-8", "replace").split("\n"):
        if "\t" in ln:
            i, r = ln.split("\t", 1)
            res[i] = r
    if p.returncode != 0 or len(res) != len(ops):
        # a crash that recover() cannot catch (stack overflow, fatal error): re-run the rest one by one
        missing = [(i, f) for i, f in ops if str(i) not in res]
        if len(ops) == 1:
            res[str(ops[0][0])] = "crash " + hx(p.stderr.decode("utf-8", "replace")[-300:])
            return res
        for i, f in missing:
            res.update(go_exec([(i, f)], timeout=timeout))
    return res


def lean_driver():
    return os.path.join(VERIF, "lean", ".lake", "build", "bin", "driver")


def lean_exec(ops, timeout=1200):
    if not ops:
        return {}
    payload = "".join("\t".join([str(i)] + list(f)) + "\n" for i, f in ops)
    p = subprocess.run([lean_driver()], input=payload.encode(), capture_output=True, timeout=timeout)
    res = {}
    for ln in p.stdout.decode("utf-8", "replace").split("\n"):
        if "\t" in ln:
            i, r = ln.split("\t", 1)
            res[i] = r
    if p.returncode != 0:
        sys.stderr.write("lean driver failed: " + p.stderr.decode("utf-8", "replace")[-500:] + "\n")
    return res


def run_cli(args, stdin=None, env=None, timeout=60, cwd=None):
    """Run the real CLI (same binary, harness off). stdin: bytes | None (-> /dev/null) | 'tty-less'."""
    e = dict(os.environ)
    e.pop("VERIF_HARNESS", None)
    if env:
        e.update(env)
    if isinstance(stdin, tuple) and stdin[0] == "file":
        # stdin redirected from a regular file (possibly empty)
        with open(stdin[1], "rb") as fh:
            p = subprocess.run([harness_bin()] + args, stdin=fh, capture_output=True, env=e, timeout=timeout, cwd=cwd)
        return p.returncode, p.stdout, p.stderr
    if stdin is None:
        # not a char device, not piped data: use /dev/null (a char device) so the CLI sees "no stdin"
        with open("/dev/null", "rb") as dn:
            p = subprocess.run([harness_bin()] + args, stdin=dn, capture_output=True, env=e, timeout=timeout, cwd=cwd)
    else:
        p = subprocess.run([harness_bin()] + args, input=stdin, capture_output=True, env=e, timeout=timeout, cwd=cwd)
    return p.returncode, p.stdout, p.stderr


def run_cli_slow(args, env=None, timeout=120, cwd=None, first_wait=0.4, chunk=4096, pause=0.001):
    """Run the real CLI with its stdout on a pipe that is read SLOWLY (nothing for `first_wait` seconds, then small reads with pauses):
    the writer blocks on a full pipe, so whatever the program queues between redaction and output is exercised at its limits."""
    import time as _t
    e = dict(os.environ)
    e.pop("VERIF_HARNESS", None)
    if env:
        e.update(env)
    with open("/dev/null", "rb") as dn, open(os.devnull, "wb") as errsink:
        p = subprocess.Popen([harness_bin()] + args, stdin=dn, stdout=subprocess.PIPE, stderr=errsink, env=e, cwd=cwd)
        out = bytearray()
        _t.sleep(first_wait)
        t0 = _t.time()
        while True:
            b = p.stdout.read(chunk)
            if not b:
                break
            out += b
            if len(out) % (64 * chunk) < chunk:
                _t.sleep(0.05)        # a longer stall now and then
            else:
                _t.sleep(pause)
            if _t.time() - t0 > timeout:
                p.kill()
                break
        rc = p.wait()
    return rc, bytes(out)


class SplitMix:
    """Deterministic PRNG: every random choice of a run derives from VERIF_SEED."""

    def __init__(self, seed):
        self.s = seed & 0xFFFFFFFFFFFFFFFF

    def next(self):
        self.s = (self.s + 0x9E3779B97F4A7C15) & 0xFFFFFFFFFFFFFFFF
        z = self.s
        z = ((z ^ (z >> 30)) * 0xBF58476D1CE4E5B9) & 0xFFFFFFFFFFFFFFFF
        z = ((z ^ (z >> 27)) * 0x94D049BB133111EB) & 0xFFFFFFFFFFFFFFFF
        return z ^ (z >> 31)

    def below(self, n):
        return self.next() % n

    def choice(self, xs):
        return xs[self.below(len(xs))]

    def chance(self, num, den):
        return self.below(den) < num

    def fork(self):
        return SplitMix(self.next())
